"""Exact reference model for regions and meshes (DESIGN 5.3).

All coordinates are ``fractions.Fraction`` of the floats actually handed to the library,
so the model is exact and shares no formulation with the library (no cos/sin, no
np.rot90, no float remainder)."""
import math
from fractions import Fraction as Fr

EPS = 2.0**-52


def fr(x):
    if isinstance(x, Fr):
        return x
    return Fr(float(x))


def frs(v):
    return tuple(fr(x) for x in v)


class RegionM:
    __slots__ = ("pmin", "pmax", "dims", "units", "tol")

    def __init__(self, p1, p2, dims=None, units=None, tol=1e-12):
        p1, p2 = frs(p1), frs(p2)
        self.pmin = tuple(min(a, b) for a, b in zip(p1, p2))
        self.pmax = tuple(max(a, b) for a, b in zip(p1, p2))
        nd = len(p1)
        if dims is None:
            dims = ["x", "y", "z"][:nd] if nd <= 3 else [f"x{i}" for i in range(nd)]
        if units is None:
            units = ["m"] * nd
        self.dims = tuple(dims)
        self.units = tuple(units)
        self.tol = tol

    @property
    def ndim(self):
        return len(self.pmin)

    @property
    def edges(self):
        return tuple(b - a for a, b in zip(self.pmin, self.pmax))

    @property
    def center(self):
        return tuple((a + b) / 2 for a, b in zip(self.pmin, self.pmax))

    def degenerate(self):
        return any(e == 0 for e in self.edges)

    def like(self, p1, p2, units=None):
        return RegionM(p1, p2, self.dims, self.units if units is None else units, self.tol)

    def translate(self, v):
        v = frs(v)
        return self.like([a + d for a, d in zip(self.pmin, v)], [a + d for a, d in zip(self.pmax, v)])

    def scale(self, factor, ref=None):
        f = frs(factor) if isinstance(factor, (list, tuple)) else (fr(factor),) * self.ndim
        r = self.center if ref is None else frs(ref)
        return self.like(
            [ri + fi * (a - ri) for a, ri, fi in zip(self.pmin, r, f)],
            [ri + fi * (a - ri) for a, ri, fi in zip(self.pmax, r, f)],
        )

    def rotate90(self, ia, ib, k, ref=None):
        r = self.center if ref is None else frs(ref)
        p1 = list(rot_point(self.pmin, ia, ib, k, r))
        p2 = list(rot_point(self.pmax, ia, ib, k, r))
        units = list(self.units)
        if k % 2:
            units[ia], units[ib] = units[ib], units[ia]
        return self.like(p1, p2, units)

    def contains_point(self, p, margin=0):
        return all(a - margin <= x <= b + margin for a, b, x in zip(self.pmin, self.pmax, p))

    def contains_region(self, other, margin=0):
        return self.contains_point(other.pmin, margin) and self.contains_point(other.pmax, margin)

    def key(self):
        return (self.pmin, self.pmax, self.dims, self.units)

    def maxabs(self):
        return float(max(max(abs(a) for a in self.pmin), max(abs(a) for a in self.pmax)))

    def __repr__(self):
        return f"RegionM({[float(a) for a in self.pmin]}, {[float(a) for a in self.pmax]}, {self.dims}, {self.units})"


def rot_point(p, ia, ib, k, r):
    """Exact rotation of point p by k quarter turns from axis ia towards ib about r."""
    k %= 4
    p = list(p)
    a, b = p[ia] - r[ia], p[ib] - r[ib]
    for _ in range(k):
        a, b = -b, a
    p[ia], p[ib] = r[ia] + a, r[ib] + b
    return tuple(p)


def rot_matrix2(k):
    """Integer 2x2 matrix of k quarter turns (acts on (a, b) components)."""
    k %= 4
    return {0: ((1, 0), (0, 1)), 1: ((0, -1), (1, 0)), 2: ((-1, 0), (0, -1)), 3: ((0, 1), (-1, 0))}[k]


class MeshM:
    __slots__ = ("region", "n", "bc", "subs")

    def __init__(self, region, n, bc="", subs=()):
        self.region = region
        self.n = tuple(int(i) for i in n)
        self.bc = bc
        # ordered list of (name, RegionM); subregions carry the mesh's dims/units/tol
        self.subs = tuple(
            (name, RegionM(s.pmin, s.pmax, region.dims, region.units, region.tol)) for name, s in subs
        )

    @property
    def cell(self):
        return tuple(e / n for e, n in zip(self.region.edges, self.n))

    @property
    def ncells(self):
        return math.prod(self.n)

    def centre_of(self, idx):
        c = self.cell
        return tuple(a + (Fr(2 * i + 1, 2)) * ci for a, i, ci in zip(self.region.pmin, idx, c))

    def index_of(self, p):
        """Exact containing cell (lower face inclusive, last cell upper inclusive)."""
        out = []
        for a, ci, ni, x in zip(self.region.pmin, self.cell, self.n, p):
            i = math.floor((x - a) / ci)
            if i == ni and x == a + ni * ci:
                i = ni - 1
            if not 0 <= i < ni:
                return None
            out.append(i)
        return tuple(out)

    def translate(self, v):
        return MeshM(self.region.translate(v), self.n, self.bc, [(k, s.translate(v)) for k, s in self.subs])

    def scale(self, factor, ref=None):
        r = self.region.center if ref is None else frs(ref)
        return MeshM(self.region.scale(factor, ref), self.n, self.bc, [(k, s.scale(factor, r)) for k, s in self.subs])

    def rotate90(self, ia, ib, k, ref=None):
        r = self.region.center if ref is None else frs(ref)
        n = list(self.n)
        if k % 2:
            n[ia], n[ib] = n[ib], n[ia]
        return MeshM(self.region.rotate90(ia, ib, k, ref), n, self.bc, [(nm, s.rotate90(ia, ib, k, r)) for nm, s in self.subs])

    def with_subs(self, subs):
        return MeshM(self.region, self.n, self.bc, subs)

    def sub_ok(self, s, tol=0):
        """Exact test: s inside region, whole cells, on lattice (up to tol)."""
        for a, b, lo, hi, c in zip(s.pmin, s.pmax, self.region.pmin, self.region.pmax, self.cell):
            if a < lo - tol or b > hi + tol:
                return False
            for x in (a, b):
                q = (x - lo) / c
                if abs(q - round(q)) * c > tol:
                    return False
            if b - a < c - tol:
                return False
        return True

    def key(self):
        return (self.region.key(), self.n, tuple((k, s.key()) for k, s in self.subs))

    def __repr__(self):
        return f"MeshM({self.region!r}, n={self.n}, bc={self.bc!r}, subs={[(k, [float(a) for a in s.pmin], [float(a) for a in s.pmax]) for k, s in self.subs]})"


# --------------------------------------------------------------------------------------
# comparison of library objects with the model
# --------------------------------------------------------------------------------------
def cmp_region(obj, m, atol, what="region"):
    """Return list of mismatch strings between a df.Region and a RegionM."""
    import numpy as np

    out = []
    pmin, pmax = np.asarray(obj.pmin), np.asarray(obj.pmax)
    if pmin.shape != (m.ndim,) or pmax.shape != (m.ndim,):
        return [f"{what}: ndim {pmin.shape} vs model {m.ndim}"]
    if not (np.isrealobj(pmin) and np.isrealobj(pmax)):
        return [f"{what}: non-real corner dtype {pmin.dtype}/{pmax.dtype}"]
    for i in range(m.ndim):
        for nm, got, want in (("pmin", pmin[i], m.pmin[i]), ("pmax", pmax[i], m.pmax[i])):
            g = float(got)
            if not math.isfinite(g) or abs(Fr(g) - want) > atol:
                out.append(f"{what}.{nm}[{i}]={g!r} model={float(want)!r} (atol {atol:.3g})")
    if tuple(obj.dims) != m.dims:
        out.append(f"{what}.dims={tuple(obj.dims)} model={m.dims}")
    if tuple(obj.units) != m.units:
        out.append(f"{what}.units={tuple(obj.units)} model={m.units}")
    return out


def cmp_mesh(obj, m, atol, what="mesh", subs=True, bc=True):
    import numpy as np

    out = cmp_region(obj.region, m.region, atol, what + ".region")
    n = tuple(int(i) for i in np.asarray(obj.n))
    if n != m.n:
        out.append(f"{what}.n={n} model={m.n}")
    if bc and obj.bc != m.bc:
        out.append(f"{what}.bc={obj.bc!r} model={m.bc!r}")
    if subs:
        names = tuple(obj.subregions.keys())
        mnames = tuple(k for k, _ in m.subs)
        if names != mnames:
            out.append(f"{what}.subregions names/order={names} model={mnames}")
        else:
            for k, s in m.subs:
                out += cmp_region(obj.subregions[k], s, atol, f"{what}.subregions[{k!r}]")
    return out
