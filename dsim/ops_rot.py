"""heapsim ops for FieldRotator (C18). The accumulated rotation is modelled from first
principles (quaternion / Rodrigues / Euler conventions / minimal rotation), not through
the scipy class the library uses."""
import math
from fractions import Fraction as Fr

import numpy as np

from .core import HarnessError, Violation, sut
from .geom import MeshM, RegionM
from .heap import Box, FieldM, arrays_equal, expect_ok, make_array, op
from .ops_field import adopt_mesh
from .ops_geom import mk_mesh


# --------------------------------------------------------------------------------------
# rotation algebra from first principles
# --------------------------------------------------------------------------------------
def q_to_matrix(q):
    x, y, z, w = (float(v) for v in q)
    n = math.sqrt(x * x + y * y + z * z + w * w)
    x, y, z, w = x / n, y / n, z / n, w / n
    return np.array([
        [1 - 2 * (y * y + z * z), 2 * (x * y - z * w), 2 * (x * z + y * w)],
        [2 * (x * y + z * w), 1 - 2 * (x * x + z * z), 2 * (y * z - x * w)],
        [2 * (x * z - y * w), 2 * (y * z + x * w), 1 - 2 * (x * x + y * y)],
    ])


def rodrigues(axis, angle):
    a = np.asarray(axis, dtype=float)
    a = a / np.linalg.norm(a)
    K = np.array([[0, -a[2], a[1]], [a[2], 0, -a[0]], [-a[1], a[0], 0]])
    return np.eye(3) + math.sin(angle) * K + (1 - math.cos(angle)) * (K @ K)


def axis_rot(ch, angle):
    return rodrigues({"x": [1, 0, 0], "y": [0, 1, 0], "z": [0, 0, 1]}[ch.lower()], angle)


def euler_matrix(seq, angles, degrees):
    if isinstance(angles, (int, float)):
        angles = [angles]
    ang = [math.radians(a) if degrees else a for a in angles]
    R = np.eye(3)
    if seq.islower():  # extrinsic: rotations about the fixed axes, applied in order
        for ch, a in zip(seq, ang):
            R = axis_rot(ch, a) @ R
    else:  # intrinsic: about the axes of the rotating frame
        for ch, a in zip(seq, ang):
            R = R @ axis_rot(ch, a)
    return R


def rotation_matrix(method, args):
    if method == "from_quat":
        return q_to_matrix(args["q"])
    if method == "from_matrix":
        return q_to_matrix(args["q"])  # the matrix handed over is built from this quaternion
    if method == "from_rotvec":
        v = np.asarray(args["v"], dtype=float)
        ang = float(np.linalg.norm(v))
        return np.eye(3) if ang == 0 else rodrigues(v, ang)
    if method == "from_euler":
        return euler_matrix(args["seq"], args["angles"], args.get("degrees", False))
    if method == "align_vector":
        a = np.asarray(args["initial"], dtype=float)
        b = np.asarray(args["final"], dtype=float)
        ax = np.cross(a, b)
        ang = math.atan2(np.linalg.norm(ax), float(a @ b))
        return rodrigues(ax, ang)
    raise HarnessError(method)


def lib_args(method, args):
    if method == "from_quat":
        return (list(args["q"]),), {}
    if method == "from_matrix":
        return (q_to_matrix(args["q"]),), {}
    if method == "from_rotvec":
        return (list(args["v"]),), {}
    if method == "from_euler":
        return (args["seq"], args["angles"]), {"degrees": bool(args.get("degrees", False))}
    if method == "align_vector":
        return (), {"initial": list(args["initial"]), "final": list(args["final"])}
    raise HarnessError(method)


# --------------------------------------------------------------------------------------
class RotM:
    def __init__(self, fm, mm, content, perm):
        self.fm = fm
        self.mm = mm
        self.content = content
        self.perm = perm  # component index for spatial axis k
        self.Q = np.eye(3)
        self.nrot = 0


@op("Q.field")
def op_qfield(st, o):
    """A field with analytic content: uniform vector or linear scalar (or random)."""
    res = sut(mk_mesh, st.df, o["mesh"])
    mesh_obj, mm = expect_ok(res, "Mesh(...)")
    c = o["content"]
    nvdim = 3 if c["t"] in ("uniform", "random3") else 1
    if c["t"] == "uniform":
        arr = np.empty((*mm.n, 3))
        arr[...] = c["v"]
    elif c["t"] == "linear":
        arr = np.empty((*mm.n, 1))
        for idx in np.ndindex(*mm.n):
            p = [float(x) for x in mm.centre_of(idx)]
            arr[idx] = sum(a * x for a, x in zip(c["a"], p)) + c["b"]
    else:
        arr = make_array({"kind": "rint", "seed": c["seed"], "lo": -8, "hi": 9, "step": 0.5, "shape": [*mm.n, nvdim]})
    kw = dict(nvdim=nvdim, value=arr.copy())
    if o.get("dtype") == "int" and c["t"] == "linear" and np.all(arr == np.rint(arr)):
        arr = arr.astype(np.int64)
        kw = dict(nvdim=nvdim, value=arr.copy(), dtype=np.int64)
    if o.get("vdims"):
        kw["vdims"] = list(o["vdims"])
    if o.get("mapping"):
        kw["vdim_mapping"] = dict(o["mapping"])
    res = sut(st.df.Field, mesh_obj, **kw)
    obj = expect_ok(res, "Field(...)")
    fm = FieldM.adopt(obj)
    fm.array = arr
    h = st.add("F", obj, Box(mm), fm, slot=o["out"], meta={"content": c})
    return "field"


def _perm(fm, mm):
    if fm.nvdim == 1:
        return None
    rmap = {v: k for k, v in fm.mapping.items()}
    return [fm.vdims.index(rmap[d]) for d in mm.region.dims]


def rotator_refused(fm, mm):
    if fm.nvdim not in (1, 3) or mm.region.ndim != 3:
        return True
    if fm.nvdim == 3:
        if not fm.vdims or any(v not in fm.mapping for v in fm.vdims):
            return True
        if any(fm.mapping[v] not in mm.region.dims for v in fm.vdims):
            return True
        if sorted(fm.mapping[v] for v in fm.vdims) != sorted(mm.region.dims):
            return True
    return False


@op("Q.new")
def op_qnew(st, o):
    h = st.h[o["on"]]
    if h.kind != "F":
        return "skipped"
    fm, mm = h.fm, h.box.v
    refused = rotator_refused(fm, mm)
    res = sut(st.df.FieldRotator, h.obj)
    if refused:
        st.stats.fault("rejected_args")
        st.stats.oracle("F")
        if not res.raised:
            raise Violation("reject.accepted", f"FieldRotator accepted a field with nvdim={fm.nvdim} on a {mm.region.ndim}-d mesh, mapping {fm.mapping}", preds=[f"nvdim{fm.nvdim}", f"ndim{mm.region.ndim}"], kind="F")
        return "refused" if res.raised else "skipped"
    obj = expect_ok(res, f"FieldRotator(field nvdim={fm.nvdim}, mapping={fm.mapping})")
    st.add("Q", obj, Box(RotM(fm.copy(), mm, h.meta.get("content"), _perm(fm, mm))), slot=o["out"], meta={"src": o["on"]})
    return "rotator"


def _check_rotated(st, o, rm, f):
    """Region, interior values, outside zeros, labels - against the accumulated Q."""
    mm, Q = rm.mm, rm.Q
    c = np.array([float(x) for x in mm.region.center])
    half = np.array([float(e) for e in mm.region.edges]) / 2
    cell = np.array([float(x) for x in mm.cell])
    want_half = np.abs(Q) @ half
    pmin, pmax = np.asarray(f.mesh.region.pmin, dtype=float), np.asarray(f.mesh.region.pmax, dtype=float)
    scale = float(np.max(half)) + float(np.max(np.abs(c)))
    st.stats.oracle("H")
    if not (np.all(np.abs(pmin - (c - want_half)) <= 1e-9 * scale) and np.all(np.abs(pmax - (c + want_half)) <= 1e-9 * scale)):
        raise Violation("rot.region", f"rotated field lives on [{pmin.tolist()}, {pmax.tolist()}], the bounding box of the rotated region about the same centre is [{(c - want_half).tolist()}, {(c + want_half).tolist()}] (after {rm.nrot} rotations since the last clear)", preds=["multi" if rm.nrot > 1 else "single"], kind="H")
    n2 = tuple(int(i) for i in f.mesh.n)
    if o.get("n") is not None and n2 != tuple(o["n"]):
        raise Violation("rot.n", f"explicit n={o['n']} but the rotated mesh has n={n2}", kind="H")
    if f.nvdim != rm.fm.nvdim or (f.vdims or None) != (rm.fm.vdims or None) or dict(f.vdim_mapping) != rm.fm.mapping:
        raise Violation("rot.labels", f"labels/mapping {f.vdims}/{dict(f.vdim_mapping)} instead of {rm.fm.vdims}/{rm.fm.mapping}", kind="H")
    content = rm.content
    if content is None or content["t"] not in ("uniform", "linear"):
        return
    cell2 = (pmax - pmin) / np.array(n2)
    grids = [pmin[k] + (np.arange(n2[k]) + 0.5) * cell2[k] for k in range(3)]
    P = np.stack(np.meshgrid(*grids, indexing="ij"), axis=-1).reshape(-1, 3)
    back = (P - c) @ Q  # Q^T (p - c), row-vector form
    lo, hi = -half, half
    inside = np.all((back >= lo + cell) & (back <= hi - cell), axis=1)
    outside = np.any((back < lo - 0.01 * cell) | (back > hi + 0.01 * cell), axis=1)
    got = np.asarray(f.array).reshape(-1, f.nvdim)
    if content["t"] == "uniform":
        v = np.asarray(content["v"], dtype=float)
        vs = v[rm.perm]  # spatial order
        ws = Q @ vs
        want = np.empty(3)
        want[rm.perm] = ws
        tol = 1e-9 * float(np.max(np.abs(v)) or 1.0)
        bad_in = inside & ~np.all(np.abs(got - want) <= tol, axis=1)
        msg = f"Q*v = {want.tolist()}"
    else:
        a = np.asarray(content["a"], dtype=float)
        q = back + c
        want_s = q @ a + content["b"]
        tol = 1e-9 * (float(np.abs(a) @ (np.abs(c) + half)) + abs(content["b"]) + 1e-300)
        bad_in = inside & ~(np.abs(got[:, 0] - want_s) <= tol)
        msg = "a.q+b at the back-rotated position"
    st.stats.oracle("H", 2)
    st.stats.hit("probe/interior_cells", int(inside.sum()))
    st.stats.hit("probe/outside_cells", int(outside.sum()))
    if bad_in.any():
        i = int(np.argwhere(bad_in)[0][0])
        raise Violation("rot.interior", f"cell at {P[i].tolist()} (back-rotated {(back[i] + c).tolist()}, >= one cell inside) carries {got[i].tolist()}, expected {msg}" + (f" = {want_s[i]!r}" if content["t"] == "linear" else "") + f" after {rm.nrot} rotations since the last clear", preds=[content["t"], "multi" if rm.nrot > 1 else "single"], kind="H")
    bad_out = outside & np.any(got != 0, axis=1)
    if bad_out.any():
        i = int(np.argwhere(bad_out)[0][0])
        raise Violation("rot.outside", f"cell at {P[i].tolist()} whose back-rotated centre {(back[i] + c).tolist()} lies outside the original region carries {got[i].tolist()}, not zero", preds=[content["t"]], kind="H")


def _antiparallel(st, o, h, rm):
    """align_vector(initial=v, final=-c*v): any half turn about an axis perpendicular to v
    qualifies, so only what every such rotation shares is checked: a uniform field along v
    comes out reversed in the interior. The accumulated rotation is unknown afterwards."""
    c = rm.content
    if c is None or c["t"] != "uniform" or rm.nrot != 0:
        return "skipped"
    v = np.asarray(c["v"], dtype=float)
    vs = v[rm.perm]
    if not np.any(vs):
        return "skipped"
    res = sut(h.obj.rotate, "align_vector", initial=list(vs * o["sa"]), final=list(-vs * o["sb"]))
    expect_ok(res, "rotate(align_vector, initial=v, final=-v)", "H", preds=["antiparallel"])
    f = h.obj.field
    got = np.asarray(f.array).reshape(-1, 3)
    nz = np.any(got != 0, axis=1)
    st.stats.oracle("H")
    st.stats.probe("antiparallel_alignment")
    tol = 1e-9 * float(np.max(np.abs(v)))
    if nz.any() and not np.all(np.abs(got[nz] + v) <= tol):
        i = int(np.argwhere(nz & ~np.all(np.abs(got + v) <= tol, axis=1))[0][0])
        raise Violation("rot.antiparallel", f"aligning v={v.tolist()} with -v must reverse the uniform field, but a non-zero cell carries {got[i].tolist()}", kind="H")
    rm.unmodelled = True
    rm.nrot += 1
    return "antiparallel"


@op("Q.rotate")
def op_qrotate(st, o):
    h = st.h[o["on"]]
    if h.kind != "Q":
        return "skipped"
    rm = h.box.v
    if getattr(rm, "unmodelled", False):
        return "skipped"  # after a half turn about an unspecified axis the model has no Q until the next clear
    if o.get("antiparallel"):
        return _antiparallel(st, o, h, rm)
    R = rotation_matrix(o["method"], o["args"])
    a, kw = lib_args(o["method"], o["args"])
    if o.get("n") is not None:
        kw["n"] = tuple(o["n"])
    res = sut(h.obj.rotate, o["method"], *a, **kw)
    expect_ok(res, f"rotate({o['method']}, {o['args']})", "H", preds=[o["method"]])
    if rm.nrot >= 1 and not np.allclose(R @ rm.Q, rm.Q @ R, atol=1e-6):
        st.stats.probe("non_commuting_pair")
    if st.extra.pop("just_cleared", None) == o["on"]:
        st.stats.probe("rotate_after_clear")
    if st.extra.pop("just_refused", None) == o["on"]:
        st.stats.probe("rotate_after_refused")
    rm.Q = R @ rm.Q  # later rotations are applied after earlier ones
    rm.nrot += 1
    _check_rotated(st, o, rm, h.obj.field)
    return o["method"]


@op("Q.rotate_bad")
def op_qrotate_bad(st, o):
    """A rotation request the rotator refuses (impossible target resolution, unknown
    method). It did not take place: the current field stays what it was and the next
    rotation composes with the rotations performed so far, not with the refused one."""
    h = st.h[o["on"]]
    if h.kind != "Q":
        return "skipped"
    rm = h.box.v
    if getattr(rm, "unmodelled", False):
        return "skipped"
    f0 = h.obj.field
    before_arr = np.array(f0.array, copy=True)
    before_mesh = adopt_mesh(f0.mesh)
    if o["why"] == "method":
        res = sut(h.obj.rotate, "from_nothing", [0.0, 0.0, 0.0, 1.0])
    else:
        a, kw = lib_args(o["method"], o["args"])
        res = sut(h.obj.rotate, o["method"], *a, n=tuple(o["n"]), **kw)
    st.stats.fault("rejected_args")
    st.stats.oracle("F")
    if not res.raised:
        # not a clause of C18 (which requests are refused is not stated): no model from here on
        rm.unmodelled = True
        return "accepted-unmodelled"
    f1 = h.obj.field
    from .geom import cmp_mesh

    bad = cmp_mesh(f1.mesh, before_mesh, st.atol(before_mesh), "field after the refused rotation", subs=False, bc=False)
    if bad or not arrays_equal(np.asarray(f1.array), before_arr):
        raise Violation("rot.refused_changed_field", f"rotate(..., {o['why']}) raised {type(res.e).__name__} but the rotator's field changed: " + "; ".join(bad[:3]), preds=[o["why"]], kind="F")
    st.stats.probe("refused_rotation")
    st.extra["just_refused"] = o["on"]
    return "refused"


@op("Q.keep")
def op_qkeep(st, o):
    """The caller keeps the current result field; later rotations of the rotator must
    not change it (whole-heap refinement on the kept handle)."""
    h = st.h[o["on"]]
    if h.kind != "Q" or h.box.v.nrot == 0:
        return "skipped"
    f = h.obj.field
    st.add("F", f, Box(adopt_mesh(f.mesh)), FieldM.adopt(f), slot=o["out"], meta={"from": "Q.keep"})
    st.stats.probe("kept_result")
    return "kept"


@op("Q.clear")
def op_qclear(st, o):
    h = st.h[o["on"]]
    if h.kind != "Q":
        return "skipped"
    rm = h.box.v
    res = sut(h.obj.clear_rotation)
    expect_ok(res, "clear_rotation()", "H")
    f = h.obj.field
    st.stats.oracle("H")
    from .geom import cmp_mesh

    bad = cmp_mesh(f.mesh, rm.mm, st.atol(rm.mm), "field after clear", subs=False, bc=False)
    if bad or not arrays_equal(np.asarray(f.array), rm.fm.array):
        raise Violation("rot.clear", "after clear_rotation the field is not the original: " + "; ".join(bad[:3]), kind="H")
    rm.Q = np.eye(3)
    rm.nrot = 0
    rm.unmodelled = False
    st.extra["just_cleared"] = o["on"]
    st.stats.probe("clear")
    return "cleared"


@op("Q.cmp90")
def op_qcmp90(st, o):
    """For cubic cells a quarter turn about a coordinate axis coincides with the
    lattice rotation of C12 (compared on the rotator's current original field)."""
    h = st.h[o["on"]]
    if h.kind != "Q":
        return "skipped"
    rm = h.box.v
    mm = rm.mm
    if len(set(mm.cell)) != 1 or rm.nrot != 0:
        return "skipped"
    src = st.h.get(h.meta.get("src"))
    if src is None:
        return "skipped"
    dims = mm.region.dims
    ax = o["axis"] % 3
    a1, a2 = dims[(ax + 1) % 3], dims[(ax + 2) % 3]
    k = o["k"]
    seq = "xyz"[ax]
    res = sut(h.obj.rotate, "from_euler", seq, 90 * k, degrees=True)
    expect_ok(res, f"rotate(from_euler {seq} {90 * k} deg)", "H")
    rm.Q = euler_matrix(seq, 90 * k, True) @ rm.Q
    rm.nrot += 1
    f = h.obj.field
    res = sut(src.obj.rotate90, a1, a2, k=k)
    g = expect_ok(res, "rotate90", "H")
    st.stats.oracle("H")
    st.stats.probe("cmp90")
    bad = []
    scale = float(max(abs(x) for x in mm.region.pmin + mm.region.pmax)) + 1e-300
    if not (np.allclose(f.mesh.region.pmin, g.mesh.region.pmin, rtol=0, atol=1e-9 * scale) and np.allclose(f.mesh.region.pmax, g.mesh.region.pmax, rtol=0, atol=1e-9 * scale)):
        bad.append(f"region {np.asarray(f.mesh.region.pmin).tolist()}..{np.asarray(f.mesh.region.pmax).tolist()} vs rotate90 {np.asarray(g.mesh.region.pmin).tolist()}..{np.asarray(g.mesh.region.pmax).tolist()}")
    elif tuple(f.mesh.n) != tuple(g.mesh.n):
        bad.append(f"n {tuple(f.mesh.n)} vs rotate90 {tuple(g.mesh.n)}")
    else:
        fa, ga = np.asarray(f.array), np.asarray(g.array)
        tol = 1e-9 * (float(np.max(np.abs(ga))) + 1e-300)
        if not np.all(np.abs(fa - ga) <= tol):
            idx = tuple(int(i) for i in np.argwhere(np.abs(fa - ga) > tol)[0])
            bad.append(f"value at {idx}: {fa[idx]!r} vs rotate90 {ga[idx]!r}")
    if bad:
        raise Violation("rot.cmp90", f"quarter turn about {seq} (k={k}) through FieldRotator differs from Field.rotate90({a1},{a2}): " + "; ".join(bad), kind="H")
    return "cmp90"
