"""heapsim ops for subregions (C14): attachment (valid and faulty), selections,
extraction by name, persistence (JSON side-car, HDF5), alignment observation."""
from fractions import Fraction as Fr

import numpy as np

from .core import HarnessError, Violation, sut
from .geom import MeshM, RegionM, cmp_mesh, frs
from .heap import Box, expect_ok, op
from .ops_field import adopt_mesh
from .ops_geom import dec


def _regions(df, mm, subs):
    return {name: df.Region(p1=list(p1), p2=list(p2), dims=list(mm.region.dims), units=list(mm.region.units)) for name, p1, p2 in subs}


@op("S.attach")
def op_attach(st, o):
    h = st.h[o["on"]]
    if h.kind != "M":
        return "skipped"
    mm = h.box.v
    subs = o["subs"]
    if any(len(p1) != mm.region.ndim for _, p1, _ in subs):
        return "skipped"
    model = [(name, RegionM(p1, p2)) for name, p1, p2 in subs]
    tol = min(mm.cell) / 1000
    if not all(mm.sub_ok(s, tol) for _, s in model):
        return "skipped"  # geometry changed since generation: no longer an aligned box
    regs = _regions(st.df, mm, subs)
    if o.get("share") and len(subs) >= 2:
        # one Region object under two names (or the first box twice): the mesh holds its own, separate copies
        names = [n for n, _, _ in subs]
        regs[names[1]] = regs[names[0]]
        model[1] = (names[1], model[0][1])
        st.stats.probe("one_region_object_twice")
    res = sut(setattr, h.obj, "subregions", regs)
    expect_ok(res, f"mesh.subregions = {{{', '.join(n for n, _, _ in subs)}}} (aligned boxes)", "H")
    h.box.v = mm.with_subs(model)
    if st.extra.pop("just_rejected", None) == o["on"]:
        st.stats.probe("reject_then_ok")
    if o.get("poke") and len(o["poke"]) == mm.region.ndim:
        # the caller's own Region objects leave the mesh region; the mesh must still hold what was attached
        # (checked by the whole-heap refinement after this step)
        for r in {id(r): r for r in regs.values()}.values():
            sut(r.translate, list(o["poke"]), inplace=True)
        st.stats.probe("caller_moves_attached_region")
    st.stats.oracle("H")
    return "attached"


@op("S.attach_from")
def op_attach_from(st, o):
    """b.subregions = a.subregions: the caller hands the dictionary (and Region objects)
    of one mesh to another. The receiving mesh holds its own copies, so a later in-place
    step on either mesh must not move the other's subregions (whole-heap check)."""
    ha, hb = st.h[o["src"]], st.h[o["on"]]
    if ha.kind != "M" or hb.kind != "M" or o["src"] == o["on"]:
        return "skipped"
    ma, mb = ha.box.v, hb.box.v
    if ma.region.ndim != mb.region.ndim or not ma.subs:
        return "skipped"
    tol = min(mb.cell) / 1000
    if not all(mb.sub_ok(s, tol) for _, s in ma.subs):
        return "skipped"
    res = sut(setattr, hb.obj, "subregions", ha.obj.subregions)
    expect_ok(res, "b.subregions = a.subregions (aligned in b)", "H")
    hb.box.v = mb.with_subs(list(ma.subs))
    st.stats.probe("subregions_from_other_mesh")
    st.stats.oracle("A")
    return "attached-from"


@op("S.attach_bad")
def op_attach_bad(st, o):
    """A candidate that is misaligned, fractional, sticking out or of the wrong type:
    rejected, previous subregions kept."""
    h = st.h[o["on"]]
    if h.kind != "M":
        return "skipped"
    mm = h.box.v
    why = o["why"]
    if "subs" in o:
        subs = o["subs"]
        if any(len(p1) != mm.region.ndim for _, p1, _ in subs):
            return "skipped"
        model = [(name, RegionM(p1, p2)) for name, p1, p2 in subs]
        # the candidate must be wrong by a wide margin (S2): at least an eighth of a cell
        if all(mm.sub_ok(s, min(mm.cell) / 8) for _, s in model):
            return "skipped"
        try:
            val = _regions(st.df, mm, subs)
        except Exception as e:  # noqa: BLE001
            raise HarnessError(f"bad candidate could not be built: {e!r}") from None
        if o.get("keytype") == "int":
            val = {i: r for i, r in enumerate(val.values())}
    else:
        val = dec(o["raw"])
        if o.get("aslist"):
            val = list(_regions(st.df, mm, o["aslist"]).values())
    st.stats.fault("rejected_args")
    res = sut(setattr, h.obj, "subregions", val)
    st.stats.oracle("F")
    if not res.raised:
        raise Violation("reject.accepted", f"mesh.subregions = <{why}> was accepted: {o.get('subs', o.get('raw'))} on {mm!r}", preds=[why], kind="F")
    try:
        st.check_refines(o["on"], h)
        st.check_invariants(o["on"], h)
    except Violation as v:
        raise Violation("reject.modified", f"mesh.subregions = <{why}> raised {type(res.e).__name__} but the previous subregions were not kept: {v.message}", preds=[why], kind="F") from None
    st.extra["just_rejected"] = o["on"]
    return "rejected"


def sel_model(mm, d, i0, i1, plane):
    """Exact model of a plane (i0 == i1, axis removed) or range selection."""
    reg = mm.region
    c = mm.cell[d]
    lo, hi = reg.pmin[d] + i0 * c, reg.pmin[d] + (i1 + 1) * c
    keep = [k for k in range(reg.ndim) if k != d] if plane else list(range(reg.ndim))
    subs = []
    for name, s in mm.subs:
        a, b = max(s.pmin[d], lo), min(s.pmax[d], hi)
        if b - a <= c / 2:
            continue  # no overlap: aligned boxes overlap by >= one cell or (up to rounding of the corners) not at all
        p1, p2 = list(s.pmin), list(s.pmax)
        p1[d], p2[d] = a, b
        subs.append((name, RegionM([p1[k] for k in keep], [p2[k] for k in keep])))
    p1, p2 = list(reg.pmin), list(reg.pmax)
    p1[d], p2[d] = lo, hi
    n = list(mm.n)
    n[d] = i1 - i0 + 1
    r2 = RegionM([p1[k] for k in keep], [p2[k] for k in keep], [reg.dims[k] for k in keep], [reg.units[k] for k in keep], reg.tol)
    return MeshM(r2, [n[k] for k in keep], "", subs)


@op("S.sel")
def op_sel(st, o):
    h = st.h[o["on"]]
    if h.kind != "M":
        return "skipped"
    mm = h.box.v
    nd = mm.region.ndim
    d = o["d"]
    if d >= nd:
        return "skipped"
    dim = mm.region.dims[d]
    plane = o["t"] == "plane"
    if plane and nd < 2:
        return "skipped"
    i0 = o["i"] % mm.n[d]
    if plane and o.get("default"):
        # the central cell: unambiguous only when the centre is not on a cell face
        if mm.n[d] % 2 == 0:
            return "skipped"
        i0 = i1 = mm.n[d] // 2
        res = sut(h.obj.sel, dim)
    elif plane:
        i1 = i0
        q = Fr(o.get("off", 0), 4)
        x = float(mm.region.pmin[d] + (i0 + Fr(1, 2) + q) * mm.cell[d])
        if o.get("zero"):
            # the coordinate 0 (0, 0.0 or -0.0) where it lies inside the region, at a margin from the cell faces
            j = mm.index_of([Fr(0) if k == d else mm.region.center[k] for k in range(nd)])
            if j is not None and abs(mm.centre_of(j)[d]) <= mm.cell[d] * Fr(3, 8):
                i0 = i1 = j[d]
                x = {"int": 0, "neg": -0.0}.get(o["zero"], 0.0)
                st.stats.probe("selection_at_zero")
        res = sut(h.obj.sel, **{dim: x})
    else:
        i1 = i0 + o["w"] % (mm.n[d] - i0)
        lo = float(mm.region.pmin[d] + (i0 + Fr(1, 4)) * mm.cell[d])
        hi = float(mm.region.pmin[d] + (i1 + Fr(3, 4)) * mm.cell[d])
        arg = (lo, hi) if not o.get("swap") else (hi, lo)
        res = sut(h.obj.sel, **{dim: arg})
    want = sel_model(mm, d, i0, i1, plane)
    lo_f, hi_f = mm.region.pmin[d] + i0 * mm.cell[d], mm.region.pmin[d] + (i1 + 1) * mm.cell[d]
    if any(s.pmin[d] == hi_f or s.pmax[d] == lo_f for _, s in mm.subs):
        st.stats.probe("selection_ends_on_subregion_face")
    new = expect_ok(res, f"mesh.sel({dim}={'plane' if plane else 'range'} cells {i0}..{i1}) with subregions {[k for k, _ in mm.subs]}", "H", preds=[o["t"]])
    st.touch(want)
    bad = cmp_mesh(new, want, st.atol(want, h.box.steps + 1), "selection", subs=True, bc=False)
    st.stats.oracle("H")
    if bad:
        raise Violation("sel.subregions" if any("subregions" in b for b in bad) else "sel.mesh", f"mesh.sel({dim}, cells {i0}..{i1}): " + "; ".join(bad[:4]), preds=[o["t"]], kind="H")
    want.bc = new.bc  # adopted
    st.add("M", new, Box(want, h.box.steps + 1), slot=o["out"])
    return o["t"]


@op("S.getitem")
def op_getitem(st, o):
    h = st.h[o["on"]]
    if h.kind != "M" or not h.box.v.subs:
        return "skipped"
    mm = h.box.v
    name, s = mm.subs[o["i"] % len(mm.subs)]
    res = sut(h.obj.__getitem__, name)
    new = expect_ok(res, f"mesh[{name!r}]", "H")
    n = []
    for k in range(mm.region.ndim):
        q = (s.pmax[k] - s.pmin[k]) / mm.cell[k]
        n.append(int(round(q)))
    want = MeshM(RegionM(s.pmin, s.pmax, mm.region.dims, mm.region.units, mm.region.tol), n, "", [])
    bad = cmp_mesh(new, want, st.atol(want, h.box.steps + 1), f"mesh[{name!r}]", subs=True, bc=False)
    cell = np.asarray(new.cell, dtype=float)
    pc = np.array([float(c) for c in mm.cell])
    if not np.all(np.abs(cell - pc) <= 1e-9 * pc):
        bad.append(f"cell {cell.tolist()} is not the parent's cell {pc.tolist()}")
    st.stats.oracle("H")
    if bad:
        raise Violation("getitem.name", "; ".join(bad[:4]), kind="H")
    want.bc = new.bc
    st.add("M", new, Box(want, h.box.steps + 1), slot=o["out"], meta={"extracted_from": o["on"]})
    st.stats.probe("extracted_mesh")
    return "extracted"


@op("S.persist")
def op_persist(st, o):
    """Save -> (restart) -> load through the JSON side-car or an HDF5 field file."""
    h = st.h[o["on"]]
    if h.kind != "M":
        return "skipped"
    mm = h.box.v
    if st.fs is None:
        from .simfs import SimFS

        st.fs = SimFS(st.df)
    how = o["how"]
    if how == "json":
        base = st.fs.path(f"m{st.nsteps}.omf")
        res = sut(h.obj.save_subregions, base)
        expect_ok(res, "mesh.save_subregions", "S")
        if o.get("restart"):
            st.stats.fault("restart")
        res = sut(lambda: st.df.Mesh(region=st.df.Region(p1=np.asarray(h.obj.region.pmin).tolist(), p2=np.asarray(h.obj.region.pmax).tolist(), dims=list(h.obj.region.dims), units=list(h.obj.region.units)), n=[int(i) for i in h.obj.n]))
        fresh = expect_ok(res, "Mesh(...)", "S")
        res = sut(fresh.load_subregions, base)
        expect_ok(res, f"mesh.load_subregions with subregions {[k for k, _ in mm.subs]}", "S", preds=["json"])
        new = fresh
    else:
        name = st.fs.path(f"m{st.nsteps}.h5")
        res = sut(lambda: st.df.Field(h.obj, nvdim=1, value=1.0).to_file(name))
        expect_ok(res, "Field(mesh).to_file(hdf5)", "S")
        if o.get("restart"):
            st.stats.fault("restart")
        res = sut(st.df.Field.from_file, name)
        new = expect_ok(res, f"Field.from_file(hdf5) with subregions {[k for k, _ in mm.subs]}", "S", preds=["hdf5"]).mesh
    want = MeshM(mm.region, mm.n, new.bc, mm.subs)
    bad = cmp_mesh(new, want, st.atol(want, h.box.steps), f"reloaded ({how})", subs=True, bc=False)
    st.stats.oracle("S")
    if bad:
        raise Violation("persist.subregions", "; ".join(bad[:4]), preds=[how], kind="S")
    st.add("M", new, Box(want, h.box.steps), slot=o["out"])
    st.stats.probe("persist_" + how)
    return "reloaded"


@op("S.aligned_far")
def op_aligned_far(st, o):
    """A copy of the mesh moved by K + 1/2 cells along one axis, K = 10**4 .. 10**6: whatever the
    distance, half a cell off the lattice is not aligned (the positive case is not asked at such
    distances: there the library's absolute tolerance meets the rounding of the remainder)."""
    h = st.h[o["on"]]
    if h.kind != "M":
        return "skipped"
    mm = h.box.v
    ax = o["ax"] % mm.region.ndim
    v = [0.0] * mm.region.ndim
    v[ax] = (10 ** o["e"] + 0.5) * float(mm.cell[ax])
    res = sut(lambda: st.df.Mesh(p1=[float(x) + d for x, d in zip(mm.region.pmin, v)], p2=[float(x) + d for x, d in zip(mm.region.pmax, v)], n=list(mm.n)))
    if res.raised:
        return "skipped"
    far = res.v
    half = (float(far.region.pmin[ax]) - float(mm.region.pmin[ax])) / float(mm.cell[ax])
    if abs(half - round(half)) < 0.25:
        return "skipped"  # rounding of the far corner ate the half cell (no decision margin left)
    st.stats.oracle("value")
    st.stats.probe("aligned_far")
    for a, b, what in ((h.obj, far, "mesh.is_aligned(far copy)"), (far, h.obj, "far copy.is_aligned(mesh)")):
        got = expect_ok(sut(a.is_aligned, b), what, "value")
        if bool(got):
            raise Violation("is_aligned", f"{what} returned True for a copy moved by 10**{o['e']} + 1/2 cells along axis {ax} of {mm!r}", preds=["False", "far"], kind="value")
    return "aligned=False(far)"


@op("S.load_bad")
def op_load_bad(st, o):
    """load_subregions from a side-car that belongs to another (larger) mesh: its first
    entries fit this mesh, a later one sticks out. The load is refused and the previous
    subregions are kept (C14: rejected attachment keeps the previous ones)."""
    h = st.h[o["on"]]
    if h.kind != "M":
        return "skipped"
    mm = h.box.v
    nd = mm.region.ndim
    ax = o["ax"] % nd
    pmin = [float(x) for x in mm.region.pmin]
    pmax = [float(x) for x in mm.region.pmax]
    cell = [float(c) for c in mm.cell]
    good = ("left", list(pmin), [a + c for a, c in zip(pmin, cell)])
    b1, b2 = list(pmin), [a + c for a, c in zip(pmin, cell)]
    b1[ax], b2[ax] = pmax[ax] - cell[ax], pmax[ax] + cell[ax]
    entries = [good] * 0 + [good, ("outside", b1, b2)]
    if o.get("good_names"):
        # entries with the names the mesh already uses come first: a partial load would replace them
        entries = [(nm, good[1], good[2]) for nm in [k for k, _ in mm.subs][:1]] + entries
    big = st.df.Region(p1=[a - 2 * c for a, c in zip(pmin, cell)], p2=[b + 2 * c for b, c in zip(pmax, cell)], dims=list(mm.region.dims), units=list(mm.region.units))
    res = sut(lambda: st.df.Mesh(region=big, n=[k + 4 for k in mm.n], subregions=_regions(st.df, mm, entries)))
    if res.raised:
        return "skipped"  # rounding of the enlarged lattice: not this op's business
    if st.fs is None:
        from .simfs import SimFS

        st.fs = SimFS(st.df)
    base = st.fs.path(f"foreign{st.nsteps}.omf")
    if sut(res.v.save_subregions, base).raised:
        return "skipped"
    st.stats.fault("foreign_sidecar")
    res = sut(h.obj.load_subregions, base)
    st.stats.oracle("F")
    if not res.raised:
        raise Violation("reject.accepted", f"load_subregions accepted a side-car with a subregion sticking out of the mesh {mm!r}", preds=["load"], kind="F")
    try:
        st.check_refines(o["on"], h)
        st.check_invariants(o["on"], h)
    except Violation as v:
        raise Violation("reject.modified", f"load_subregions raised {type(res.e).__name__} but the previous subregions were not kept: {v.message}", preds=["load"], kind="F") from None
    st.stats.probe("refused_sidecar_load")
    st.extra["just_rejected"] = o["on"]
    return "rejected"


@op("S.aligned")
def op_aligned(st, o):
    """Two meshes are reported aligned exactly when their cell sizes agree and their
    origins differ by whole cells - judged only on pairs with a decision margin."""
    ha, hb = st.h[o["a"]], st.h[o["b"]]
    if ha.kind != "M" or hb.kind != "M":
        return "skipped"
    ma, mb = ha.box.v, hb.box.v
    if ma.region.ndim != mb.region.ndim:
        return "skipped"
    eq = [ca == cb or abs(ca - cb) <= Fr(1, 10**9) * ca for ca, cb in zip(ma.cell, mb.cell)]
    far = [abs(ca - cb) >= ca / 50 for ca, cb in zip(ma.cell, mb.cell)]
    if all(eq):
        want = True
        for k in range(ma.region.ndim):
            q = (mb.region.pmin[k] - ma.region.pmin[k]) / ma.cell[k]
            r = abs(q - round(q))
            if r <= Fr(1, 10**6):
                continue
            if r >= Fr(1, 8):
                want = False
                continue
            return "skipped"  # no decision margin
    elif any(far):
        want = False
    else:
        return "skipped"
    res = sut(ha.obj.is_aligned, hb.obj)
    got = expect_ok(res, "mesh.is_aligned", "value")
    st.stats.oracle("value")
    st.stats.probe("aligned_true" if want else "aligned_false")
    if bool(got) != want:
        raise Violation("is_aligned", f"is_aligned returned {got} for {ma!r} and {mb!r}; cells {'agree' if all(eq) else 'differ'}, exact answer {want}", preds=[str(want)], kind="value")
    return f"aligned={want}"
