"""heapsim profiles `values` (C02), `norm` (C15), `algebra` (C03), `validity` (C08)."""
import math
from fractions import Fraction as Fr

from . import ops_field  # noqa: F401  (registers ops)
from .gen import Geo, draw_field_new, draw_mesh_spec, draw_n, draw_twin_spec
from .geom import MeshM
from .profiles_geom import HeapProfile

VD = {1: [None], 2: [None, ["a", "b"], ["mx", "my"]], 3: [None, ["a", "b", "c"], ["mx", "my", "mz"]], 4: [None, ["a", "b", "c", "d"]]}


def dims_list(spec, ndim):
    return spec["dims"] or (["x", "y", "z"][:ndim] if ndim <= 3 else [f"x{i}" for i in range(ndim)])


def draw_cover_mesh(rng, mm):
    """A mesh whose cells strictly contain the cell centres of mesh mm (C02, source
    field on a different mesh): same cell, or 2x / 3x coarser on the same lattice."""
    ratio = rng.choice([1, 1, 2, 3])
    same_n = rng.random() < 0.25  # a coarser mesh over a larger region with the SAME cell counts
    if same_n:
        ratio = rng.choice([2, 3])
    nd = mm.region.ndim
    p1, p2, n = [], [], []
    for k in range(nd):
        c = float(mm.cell[k])
        a = rng.randint(0, 2) * ratio
        tot = mm.n[k] + a
        extra = (-tot) % ratio + ratio * rng.randint(0, 1)
        if same_n:
            a = rng.randint(0, (ratio - 1) * mm.n[k] // ratio) * ratio if ratio * mm.n[k] > mm.n[k] else 0
            a = min(a, (ratio - 1) * mm.n[k])
            tot, extra = ratio * mm.n[k], 0
        tot += extra
        lo = float(mm.region.pmin[k]) - a * c
        p1.append(lo)
        p2.append(lo + tot * c)
        n.append(tot // ratio)
    if math.prod(n) > 400:
        return None
    return {"p1": p1, "p2": p2, "dims": list(mm.region.dims), "units": list(mm.region.units), "n": n, "bc": "", "subs": []}


def draw_table(rng, dtype=None):
    r = rng.random()
    if r < 0.6:
        return {"kind": "idx", "step": rng.choice([1.0, 0.5, -2.0]), "offset": rng.choice([0.0, 3.0, -50.0])}
    return {"kind": "rint", "seed": rng.randrange(2**31), "lo": -8, "hi": 9, "step": rng.choice([1.0, 0.25])}


def draw_spec(rng, st, mm, nvdim, dtype, allow_field=True, depth=0):
    kinds = ["const", "array", "array", "fn", "fn"]
    if mm.subs and depth == 0:
        kinds += ["dict", "dict"]
    if allow_field and depth == 0:
        kinds += ["field"]
    t = rng.choice(kinds)
    cplx = dtype == "complex"
    if t == "const":
        if nvdim == 1 and rng.random() < 0.6:
            v = rng.choice([0, 1, -2.5, 3, 7.25]) if not cplx else {"complex": [1.0, -2.0]}
            return {"t": "const", "v": v}
        vec = [rng.choice([0.0, 1.0, -1.5, 2.0, 4.0]) for _ in range(nvdim)]
        if cplx:
            vec[0] = {"complex": [1.0, 2.0]}
        r = rng.random()
        v = vec if r < 0.5 else ({"tuple": vec} if r < 0.75 else ({"ndarray": vec} if not cplx else vec))
        return {"t": "const", "v": v}
    if t == "array":
        o = {"t": "array", "a": draw_table(rng)}
        if nvdim == 1 and rng.random() < 0.3:
            o["squeeze"] = True
        if rng.random() < 0.1 and mm.ncells <= 40:
            o["aslist"] = True
        return o
    if t == "fn":
        return {"t": "fn", "a": draw_table(rng), "scalar_ok": nvdim == 1 and rng.random() < 0.5}
    if t == "dict":
        names = [k for k, _ in mm.subs]
        keys = [k for k in names if rng.random() < 0.7]
        d = {k: draw_spec(rng, st, mm, nvdim, dtype, False, 1) for k in keys}
        if keys and dtype in (None, "float") and rng.random() < 0.08:
            # NaN is a value like any other: the cells of that subregion hold it
            nan = {"float": "nan"}
            d[rng.choice(keys)] = {"t": "const", "v": nan if nvdim == 1 else [nan] + [1.0] * (nvdim - 1)}
            st.stats.probe("dict_nan_value")
        for k in d:
            if d[k]["t"] == "array":
                d[k] = {"t": "fn", "a": d[k]["a"]}
        dd = draw_spec(rng, st, mm, nvdim, dtype, False, 1)
        if dd["t"] == "array":
            dd = {"t": "fn", "a": dd["a"]}
        d["default"] = dd
        # the order in which the caller writes the keys must not matter: precedence is
        # the order of the mesh's subregions
        order = list(d)
        rng.shuffle(order)
        return {"t": "dict", "d": {k: d[k] for k in order}}
    srcs = [s for s in st.slots("F") if st.h[s].fm.nvdim == nvdim and ops_field.field_covers(st, {"t": "field", "src": s}, mm)]
    if not srcs:
        return {"t": "array", "a": draw_table(rng)}
    return {"t": "field", "src": rng.choice(srcs)}


def draw_faulty(rng, st, s, h, via):
    """A faulty value specification (Appendix A.2, right column)."""
    mm = h.box.v
    construct = h.kind == "M"
    nvdim = rng.choice([1, 2, 3]) if construct else h.fm.nvdim
    n = list(mm.n)
    kinds = ["count", "count_arr", "shape", "shape_bcast", "str", "none", "object", "fn", "fn", "fn", "field"]
    if mm.subs:
        kinds.append("dict")
    k = rng.choice(kinds)
    o = {"op": "F.faulty", "on": s, "via": via, "fault": "rejected_args"}
    if construct:
        o["nvdim"] = nvdim
    if k == "count":
        o.update(why="wrong component count (constant)", spec={"t": "const", "v": [1.0] * (nvdim + 1)} if nvdim > 1 or rng.random() < 0.5 else {"t": "const", "v": [1.0, 2.0]})
        if nvdim > 1 and rng.random() < 0.4:
            o["spec"] = {"t": "const", "v": 3.5}
    elif k == "count_arr":
        o.update(why="wrong component count (array)", spec={"t": "raw", "v": {"ndarray": _nested([*n, nvdim + 1], 1.0)}})
    elif k == "shape":
        o.update(why="wrong array shape", spec={"t": "raw", "v": {"ndarray": _nested([*[i + 1 for i in n], nvdim], 2.0)}})
    elif k == "shape_bcast":
        # fewer axes than the mesh / a length-1 axis: numpy would silently broadcast it
        shp = [n[-1], nvdim] if len(n) >= 2 else [1, nvdim]
        if rng.random() < 0.4:
            shp = [1] * len(n) + [nvdim]
        if shp == [*n, nvdim] or (nvdim == 1 and shp == list(n)):
            shp = [*[i + 1 for i in n], nvdim]  # (a scalar field also accepts an array of shape n)
        o.update(why="wrong array shape (broadcastable)", spec={"t": "raw", "v": {"ndarray": _nested(shp, 2.0)}})
    elif k == "str":
        o.update(why="wrong type (str)", spec={"t": "raw", "v": "abc"})
    elif k == "none":
        o.update(why="wrong type (None)", spec={"t": "raw", "v": None})
    elif k == "object":
        o.update(why="wrong type (object)", spec={"t": "object"})
    elif k == "fn":
        total = math.prod(n)
        kk = rng.choice([1, total, rng.randint(1, total), rng.randint(1, total)])
        how = rng.choice(["raise", "raise", "shape", "type"])
        o.update(why=f"callable fails ({how})", spec={"t": "fn", "a": draw_table(rng), "fault": {"k": kk, "how": how}}, fault="callback_fault")
    elif k == "dict":
        names = [kx for kx, _ in mm.subs]
        keys = rng.sample(names, rng.randint(0, max(0, len(names) - 1)))
        o.update(why="dict without default and missing keys", spec={"t": "dict", "d": {kx: {"t": "const", "v": [1.0] * nvdim if nvdim > 1 else 1.0} for kx in keys}})
    else:
        srcs = [s2 for s2 in st.slots("F") if s2 != s and st.h[s2].fm.nvdim == nvdim]
        wrong = [s2 for s2 in st.slots("F") if s2 != s and st.h[s2].fm.nvdim != nvdim and st.h[s2].box.v.region.dims == mm.region.dims]
        if wrong and rng.random() < 0.6:
            o.update(why="source field with the wrong component count", spec={"t": "field", "src": rng.choice(wrong), "wrong_nvdim": True})
        elif not srcs:
            o.update(why="wrong type (str)", spec={"t": "raw", "v": "abc"})
        else:
            o.update(why="source field on a non-covering mesh", spec={"t": "field", "src": rng.choice(srcs)})
    return o


def _nested(shape, v):
    if len(shape) == 1:
        return [v] * shape[0]
    return [_nested(shape[1:], v) for _ in range(shape[0])]


def draw_points(rng, mm, count):
    pts = []
    for _ in range(count):
        idx = [rng.randrange(k) for k in mm.n]
        c = mm.centre_of(idx)
        off = [Fr(rng.choice([0, 0, 1, -1, 1, -1]), 4) for _ in idx]
        pts.append([float(a + o * ci) for a, o, ci in zip(c, off, mm.cell)])
    return pts


class FieldProfile(HeapProfile):
    invariants = False
    tiers = {"quick": 6000, "thorough": 200000}

    def tier_runs(self, tier):
        return self.tiers[tier]

    def ensure_mesh(self, rng, st, max_cells, max_subs, ndim=None, lo=1):
        cfg = st.cfg
        geo = st.extra.setdefault("geo", Geo(cfg["family"]))
        spec = draw_mesh_spec(rng, geo, ndim or cfg["ndim"], max_cells, max_subs, lo=lo)
        return dict(spec, op="Mesh.new", out=st.next_slot)

    def simplify(self, o):
        out = list(super().simplify(o))
        if o["op"] in ("F.construct",):
            if o.get("norm"):
                out.append(dict(o, norm=None))
            if o.get("valid"):
                out.append(dict(o, valid=None))
            if o.get("unit"):
                out.append(dict(o, unit=None))
            if o.get("vdims"):
                out.append(dict(o, vdims=None))
            if o.get("dtype"):
                out.append(dict(o, dtype=None))
            if o["spec"]["t"] not in ("array",):
                out.append(dict(o, spec={"t": "array", "a": {"kind": "idx"}}))
        return out


class ValuesProfile(FieldProfile):
    prop = "C02"
    name = "values"
    predict = ("mesh", "array", "valid", "vdims", "mapping", "unit")
    required_probes = ("reject_then_ok", "callback_fault_mid", "dict_spec", "field_spec", "update_after_norm")
    rule = (
        "one case = one seeded history (3-40 steps) of field construction / update_field_values / array assignment with every "
        "kind of value specification (constant, per-cell array, function of position, per-subregion dictionary with default, "
        "another field on a covering mesh), interleaved with norm and validity assignments, observations (sampling, component "
        "access, iteration, line sampling) and FAULTY specifications (wrong count/shape/type, dictionary without default, "
        "non-covering source, user function failing at its k-th call); distinct = distinct sequence of (op kind, fault kind, "
        "outcome); non-trivial = at least 2 steps and at least one fault/history/aliasing oracle evaluation"
    )

    def _draw_config(self, rng):
        return {
            "ndim": rng.choice([1, 2, 2, 3, 3, 4]),
            "family": rng.choice(["dyadic", "dyadic", "nm"]),
            "steps": rng.randint(3, 40),
            "pool": rng.randint(3, 8),
            "p_fault": rng.choice([0.0, 0.1, 0.2, 0.3]),
            "max_cells": rng.choice([12, 60, 300]),
            "max_subs": rng.choice([0, 1, 3, 3]),
            "dtypes": rng.choice([[None], [None, "float"], [None, "int", "complex", "float"], [None, "bool", "int", "bool"]]),
            "p_norm": rng.choice([0.0, 0.1]),
        }

    def gen_op(self, rng, st):
        cfg = st.cfg
        out = st.next_slot
        if len(st.h) >= cfg["pool"]:
            return {"op": "drop", "on": min(st.h)}
        meshes, fields = st.slots("M"), st.slots("F")
        qv = st.extra.get("queueV")
        if qv:
            o = qv.pop(0)
            if o["op"] == "F.construct":
                return dict(o, out=out) if st.has(o["on"], "M") else {"op": "drop", "on": -1}
            if isinstance(o.get("spec"), dict) and o["spec"].get("src") == "$last_field":
                o = dict(o, spec=dict(o["spec"], src=max(fields) if fields else -1))
            return dict(o, out=out) if "out" in o else o
        if not meshes:
            return self.ensure_mesh(rng, st, cfg["max_cells"], cfg["max_subs"])
        r = rng.random()
        if not fields or r < 0.18:
            if fields and rng.random() < 0.35:
                # a covering mesh for a later field-valued specification
                tgt = rng.choice(fields)
                cm = draw_cover_mesh(rng, st.h[tgt].box.v)
                if cm is not None:
                    if st.h[tgt].meta.get("dtype") in (None, "float") and st.h[tgt].fm.array.dtype.kind == "f":
                        # ... a field on the covering mesh, and the covered field takes its values from it
                        st.extra.setdefault("queueV", []).extend([
                            {"op": "F.construct", "on": out, "nvdim": st.h[tgt].fm.nvdim, "dtype": None, "spec": {"t": "array", "a": draw_table(rng)}, "vdims": None, "unit": None},
                            {"op": "F.update", "on": tgt, "spec": {"t": "field", "src": "$last_field"}, "via": rng.choice(["update", "array"])}])
                    return dict(cm, op="Mesh.new", out=out)
            if rng.random() < 0.15:
                return self.ensure_mesh(rng, st, cfg["max_cells"], cfg["max_subs"])
            if rng.random() < 0.15 and len(meshes) < 4:
                # a twin: same geometry with other subregions, or shifted by whole cells with the same ones
                st.stats.probe("twin_mesh")
                src = rng.choice(meshes)
                tw = draw_twin_spec(rng, st.h[src].box.v)
                names = sorted({n for n, _, _ in tw["subs"]} & {n for n, _ in st.h[src].box.v.subs})
                if names:
                    # the same per-subregion dictionary on the original and then on the twin
                    d = {n: {"t": "const", "v": float(i + 1)} for i, n in enumerate(names)}
                    d["default"] = {"t": "const", "v": 0.0}
                    q = st.extra.setdefault("queueV", [])
                    q += [{"op": "F.construct", "on": src, "nvdim": 1, "dtype": None, "spec": {"t": "dict", "d": d}, "vdims": None, "unit": None},
                          {"op": "F.construct", "on": out, "nvdim": 1, "dtype": None, "spec": {"t": "dict", "d": d}, "vdims": None, "unit": None}]
                return dict(tw, op="Mesh.new", out=out)
            ms = rng.choice(meshes)
            mm = st.h[ms].box.v
            nvdim = rng.choice([1, 1, 2, 3, 3, 4])
            dtype = rng.choice(cfg["dtypes"])
            o = {"op": "F.construct", "on": ms, "out": out, "nvdim": nvdim, "dtype": dtype, "spec": draw_spec(rng, st, mm, nvdim, dtype), "vdims": rng.choice(VD[nvdim]), "unit": rng.choice([None, None, "A/m"])}
            if o["spec"]["t"] in ("fn",) and dtype == "complex":
                o["spec"] = {"t": "array", "a": draw_table(rng)}
            if rng.random() < 0.3:
                o["valid"] = {"kind": "mask", "seed": rng.randrange(2**31), "p": 0.7}
            if rng.random() < cfg["p_norm"] and dtype in (None, "float"):
                o["norm"] = {"t": "const", "v": rng.choice([1.0, 2.5, 8e5])}
            return o
        s = rng.choice(fields)
        h = st.h[s]
        mm = h.box.v
        dtype = h.meta.get("dtype")
        via = rng.choice(["update", "update", "array"])
        if mm.subs and dtype in (None, "float") and rng.random() < 0.04:
            # per-subregion values - the mesh is moved / scaled IN PLACE - per-subregion values again:
            # the second assignment uses the subregions where they are now
            ms = [m for m in meshes if st.h[m].box is h.box]
            if ms:
                names = [k for k, _ in mm.subs]
                def dspec():
                    d = {k: {"t": "const", "v": [float(rng.randint(1, 9))] * h.fm.nvdim if h.fm.nvdim > 1 else float(rng.randint(1, 9))} for k in names if rng.random() < 0.8}
                    d["default"] = {"t": "const", "v": [0.0] * h.fm.nvdim if h.fm.nvdim > 1 else 0.0}
                    return {"t": "dict", "d": d}
                ax = rng.randrange(mm.region.ndim)
                v = [0.0] * mm.region.ndim
                v[ax] = float(mm.cell[ax]) * rng.choice([1, 2, -1, 3])
                move = {"op": "translate", "on": ms[0], "v": v, "inplace": True, "out": None} if rng.random() < 0.6 else {"op": "scale", "on": ms[0], "factor": rng.choice([2, 0.5]), "ref": None, "inplace": True, "out": None}
                st.extra.setdefault("queueV", []).extend([move, {"op": "F.update", "on": s, "spec": dspec(), "via": "update"}])
                st.stats.probe("dict_move_mesh_dict")
                return {"op": "F.update", "on": s, "spec": dspec(), "via": "update"}
        if rng.random() < cfg["p_fault"]:
            tgt = s if rng.random() < 0.85 else rng.choice(meshes)
            return draw_faulty(rng, st, tgt, st.h[tgt], via)
        r = rng.random()
        if r < 0.4:
            spec = draw_spec(rng, st, mm, h.fm.nvdim, dtype)
            if spec["t"] == "fn" and dtype in ("complex", "int", "bool"):
                spec = {"t": "array", "a": draw_table(rng)}
            if spec["t"] == "field" and spec["src"] == s:
                spec = {"t": "array", "a": draw_table(rng)}
            return {"op": "F.update", "on": s, "spec": spec, "via": via}
        if r < 0.55:
            pts = draw_points(rng, mm, rng.randint(1, 4))
            return {"op": "F.call", "on": s, "pts": pts, "tuple": rng.random() < 0.3, "scalar": rng.random() < 0.5}
        if r < 0.65:
            return {"op": "F.comp", "on": s, "i": rng.randrange(4), "out": out}
        if r < 0.72:
            return {"op": "F.iter", "on": s}
        if r < 0.84:
            p1, p2 = draw_points(rng, mm, 2)
            if rng.random() < 0.45:
                # an end point on the boundary of the region (the line starts or ends on a corner / face of the sample)
                tgt = p2 if rng.random() < 0.6 else p1
                for k in range(len(tgt)):
                    if rng.random() < 0.6:
                        tgt[k] = float(mm.region.pmin[k]) if rng.random() < 0.65 else float(mm.region.pmax[k])
                return {"op": "F.line", "on": s, "p1": p1, "p2": p2, "n": [2, 3, 5, 6, 7, 8, 9, 11, 12, 13], "scalar": rng.random() < 0.5}
            return {"op": "F.line", "on": s, "p1": p1, "p2": p2, "n": rng.choice([2, 3, 5, 9, 8, 12]), "scalar": rng.random() < 0.5}
        if r < 0.92 and dtype in (None, "float"):
            return {"op": "F.setnorm", "on": s, "spec": {"t": "const", "v": rng.choice([1.0, 3.0, 1e-3])}}
        return {"op": "V.set", "on": s, "how": {"t": "array", "a": {"kind": "mask", "seed": rng.randrange(2**31), "p": 0.5}}}


class NormProfile(FieldProfile):
    prop = "C15"
    name = "norm"
    predict = ("mesh", "array", "valid", "vdims", "mapping", "unit")
    required_probes = ("update_after_norm", "norm_from_field_other_mesh", "refused_norm")
    rule = (
        "one case = one seeded history (3-30 steps) mixing value updates, norm assignments (constant, per-cell array, function of "
        "position - a user function or a scalar field on a covering mesh -, zeros in places), Field(..., norm=...), and reads of norm and orientation, on fields whose vector lengths are "
        "exact zero, <=1e-10 or in [1e-6, 1e150]; distinct = distinct sequence of (op kind, outcome); non-trivial = at least 2 "
        "steps and at least one history oracle evaluation (a value update after an earlier norm assignment must store exactly the "
        "new specification)"
    )

    def _draw_config(self, rng):
        cfg = {
            "ndim": rng.choice([1, 2, 3, 3]),
            "family": rng.choice(["dyadic", "nm"]),
            "steps": rng.randint(3, 30),
            "pool": rng.randint(3, 7),
            "max_cells": rng.choice([12, 60, 200]),
            "mag": rng.choice(["unit", "wide", "zeros"]),
            "norm_fields": rng.random() < 0.5,
            "p_badnorm": rng.choice([0.0, 0.05, 0.1]),
            "bigmesh": False,
        }
        if rng.random() < 0.015:
            cfg.update(bigmesh=True, steps=5, pool=4, norm_fields=False, p_badnorm=0.0)
        return cfg

    def table(self, rng, cfg, nvdim):
        if cfg["mag"] == "unit" or rng.random() < 0.3:
            return {"kind": "rint", "seed": rng.randrange(2**31), "lo": -4, "hi": 5, "step": rng.choice([1.0, 0.5])}
        if cfg["mag"] == "zeros":
            return {"kind": "rint", "seed": rng.randrange(2**31), "lo": -1, "hi": 2, "step": rng.choice([1.0, 1e-10, 1e6])}
        return {"kind": "rint", "seed": rng.randrange(2**31), "lo": -3, "hi": 4, "step": rng.choice([1e-6, 1e-3, 1e8, 1e150, 1e-10])}

    def norm_spec(self, rng, mm):
        r = rng.random()
        if r < 0.4:
            return {"t": "const", "v": rng.choice([1.0, 8e5, 1e-3, 2.5, 0.0 if rng.random() < 0.2 else 1.0])}
        tab = {"kind": "rint", "seed": rng.randrange(2**31), "lo": 0 if rng.random() < 0.4 else 1, "hi": 6, "step": rng.choice([1.0, 0.5, 1e5])}
        if r < 0.7:
            o = {"t": "array", "a": tab}
            if rng.random() < 0.5:
                o["squeeze"] = True
            return o
        if r < 0.8:
            return {"t": "fnred", "u": float(max(mm.cell)) * 8}
        return {"t": "fn", "a": tab, "scalar_ok": rng.random() < 0.5}

    def gen_op(self, rng, st):
        cfg = st.cfg
        out = st.next_slot
        if len(st.h) >= cfg["pool"]:
            return {"op": "drop", "on": min(st.h)}
        meshes, fields = st.slots("M"), st.slots("F")
        queue = st.extra.get("queue")
        if queue:
            o = queue.pop(0)
            return dict(o, out=out) if st.has(o["on"], "M") else None
        if not meshes:
            if cfg.get("bigmesh"):
                # above 2**15 cells (vectorised code paths, if any)
                st.stats.probe("big_mesh")
                nb = {1: [36001], 2: [190, 190], 3: [34, 33, 33]}[cfg["ndim"]]
                spec = self.ensure_mesh(rng, st, 10**6, 0)
                pmin = [min(a, b) for a, b in zip(spec["p1"], spec["p2"])]
                u = Geo(cfg["family"]).u
                spec.update(p1=pmin, p2=[a + k * u for a, k in zip(pmin, nb)], n=nb, subs=[], bc="")
                spec.pop("intcorners", None)
                spec.pop("intsubs", None)
                return spec
            return self.ensure_mesh(rng, st, cfg["max_cells"], 0)
        if cfg.get("bigmesh") and fields and not st.extra.get("big_done"):
            st.extra["big_done"] = True
            mmb = st.h[fields[0]].box.v
            return {"op": "F.setnorm", "on": fields[0], "spec": {"t": "fnred", "u": float(max(mmb.cell)) * 8}}
        if not fields or rng.random() < 0.12:
            ms = rng.choice(meshes)
            nvdim = rng.choice([1, 2, 3, 3, 4])
            o = {"op": "F.construct", "on": ms, "out": out, "nvdim": nvdim, "dtype": None, "spec": {"t": "array", "a": self.table(rng, cfg, nvdim)}, "vdims": None, "unit": rng.choice([None, "A/m"])}
            if nvdim == 1 and rng.random() < 0.5:
                o["spec"]["squeeze"] = True  # one number per cell, shape n (on a 1-d mesh: a flat sequence)
                if rng.random() < 0.5 and st.h[ms].box.v.ncells <= 40:
                    o["spec"]["aslist"] = True
            if rng.random() < 0.4:
                o["norm"] = self.norm_spec(rng, st.h[ms].box.v)
            if rng.random() < 0.4:
                o["valid"] = {"kind": "mask", "seed": rng.randrange(2**31), "p": 0.7}
            return o
        s = rng.choice(fields)
        h = st.h[s]
        r = rng.random()
        if cfg.get("norm_fields") and rng.random() < 0.12:
            # a scalar field with non-negative values on a mesh covering this field's mesh (same cell,
            # or 2x / 3x coarser, possibly larger): later used as a position-dependent norm
            cm = draw_cover_mesh(rng, h.box.v) if rng.random() < 0.6 else None
            if cm is not None:
                st.extra.setdefault("queue", []).append({"op": "F.construct", "on": out, "out": out + 1, "nvdim": 1, "dtype": None, "spec": {"t": "array", "a": {"kind": "rint", "seed": rng.randrange(2**31), "lo": 0 if rng.random() < 0.3 else 1, "hi": 7, "step": rng.choice([1.0, 0.5, 1e5])}}, "vdims": None, "unit": None})
                return dict(cm, op="Mesh.new", out=out)
        if rng.random() < 0.04:
            # norm c - values drift by a few parts per million - norm c again: exactly c afterwards
            c = rng.choice([1.0, 8e5, 2.5, 1.003e-6])
            st.extra.setdefault("queue2", []).extend([{"op": "F.nudge", "on": s, "eps": rng.choice([5e-7, -3e-6, 2e-9])}, {"op": "F.setnorm", "on": s, "spec": {"t": "const", "v": c}}])
            return {"op": "F.setnorm", "on": s, "spec": {"t": "const", "v": c}}
        if rng.random() < cfg.get("p_badnorm", 0.0):
            # refused norm - values updated so that some cells are zero - valid norm: zero cells stay zero
            nv = h.fm.nvdim
            queue = st.extra.setdefault("queue2", [])
            queue += [{"op": "F.update", "on": s, "spec": {"t": "array", "a": {"kind": "rint", "seed": rng.randrange(2**31), "lo": -1, "hi": 2, "step": 1.0}}, "via": rng.choice(["update", "array"])},
                      {"op": "F.setnorm", "on": s, "spec": {"t": "const", "v": rng.choice([5.0, 1.0, 2.5])}}]
            return {"op": "F.setnorm_bad", "on": s, "how": rng.choice(["str", "shape", "fn", "fn"]), "k": rng.randrange(1, 400), "fault": "rejected_args"}
        q2 = st.extra.get("queue2")
        if q2:
            return q2.pop(0)
        if r < 0.35:
            srcs = [x for x in fields if x != s and st.h[x].fm.nvdim == 1 and st.h[x].fm.array.dtype.kind == "f" and bool((st.h[x].fm.array >= 0).all()) and ops_field.field_covers(st, {"t": "field", "src": x}, h.box.v)] if cfg.get("norm_fields") else []
            if srcs and rng.random() < 0.5:
                return {"op": "F.setnorm", "on": s, "spec": {"t": "field", "src": rng.choice(srcs)}}
            if rng.random() < 0.12:
                st.extra.setdefault("queue2", []).append({"op": "F.setnorm", "on": s, "spec": {"t": "ownview", "c": rng.randrange(4), "squeeze": rng.random() < 0.5}})
                return {"op": "F.absarray", "on": s}
            return {"op": "F.setnorm", "on": s, "spec": self.norm_spec(rng, h.box.v)}
        if r < 0.4 and len(fields) > 1:
            return {"op": "F.update", "on": s, "spec": {"t": "arrayof", "src": rng.choice([x for x in fields if x != s])}, "via": rng.choice(["array", "update"])}
        if r < 0.6:
            t = rng.choice(["array", "array", "fn", "const"])
            if t == "const":
                spec = {"t": "const", "v": [rng.choice([0.0, 1.0, -2.0, 3.0]) for _ in range(h.fm.nvdim)]}
            else:
                spec = {"t": t, "a": self.table(rng, cfg, h.fm.nvdim)}
            return {"op": "F.update", "on": s, "spec": spec, "via": rng.choice(["update", "array"])}
        if r < 0.7:
            return {"op": "F.getnorm", "on": s, "what": "norm", "out": out}
        if r < 0.85:
            return {"op": "F.getnorm", "on": s, "what": "orientation", "out": out}
        return {"op": "F.poke", "on": s, "i": rng.randrange(10**6), "v": [rng.choice([0.0, 1.0, -3.0, 2.5, 1e3]) for _ in range(h.fm.nvdim)], "whole_cell": rng.random() < 0.7}


class AlgebraProfile(FieldProfile):
    prop = "C03"
    name = "algebra"
    tiers = {"quick": 10000, "thorough": 200000}  # the cheapest profile: more runs for the changes that need a rare combination
    predict = ("mesh", "array")
    required_probes = ("same_operand_twice", "shared_mesh", "commute_scalar_vector", "equal_but_distinct_meshes", "evaluate_update_evaluate", "inplace_ufunc", "resampled_same_region")
    rule = (
        "one case = one seeded program (3-30 operator applications, results fed back as operands: DAGs) over unary -/+/abs, "
        "binary + - * / ** with field / number / constant vector / per-cell array on either side, dot, cross, angle, <<, complex "
        "parts and numpy ufuncs, with int/float/complex small dyadic values and random validity masks, plus rejected "
        "combinations (different meshes, incompatible component counts); distinct = distinct sequence of (op kind, outcome); "
        "non-trivial = at least 2 steps and at least one aliasing oracle evaluation (whole-heap refinement: no operand changed)"
    )

    def _draw_config(self, rng):
        return {
            "ndim": rng.choice([1, 2, 3, 3, 4]),
            "family": rng.choice(["dyadic", "nm"]),
            "steps": rng.randint(3, 30),
            "pool": rng.randint(4, 10),
            "max_cells": rng.choice([12, 60, 150]),
            "dtypes": rng.choice([[None], [None, "int"], [None, "complex"], [None, "int", "complex", "float"]]),
            "p_reject": rng.choice([0.0, 0.1, 0.2]),
            "nvdims": rng.choice([[1, 3], [3], [1, 2, 3, 4], [2, 4]]),
        }

    def operand(self, rng, st, ha, fields, allow_arr=True):
        r = rng.random()
        nv = ha.fm.nvdim
        cplx = ha.fm.array.dtype.kind == "c"
        if r < 0.5:
            same = [s for s in fields if st.h[s].box.v.key()[:2] == ha.box.v.key()[:2]]
            return rng.choice(same) if same else {"num": 2}
        if r < 0.7:
            return {"num": rng.choice([2, -1, 0.5, 3, 0, -0.25, {"complex": [0.0, 1.0]} if cplx else 4])}
        if r < 0.88 or not allow_arr:
            k = nv if nv > 1 or rng.random() < 0.5 else rng.choice([2, 3])
            return {"vec": [rng.choice([1, -2, 0.5, 0, 3]) for _ in range(k)], "as": rng.choice(["list", "tuple", "ndarray"])}
        return {"arr": {"kind": "rint", "seed": rng.randrange(2**31), "lo": -4, "hi": 5, "step": 0.5}, "nv": nv}

    def gen_op(self, rng, st):
        cfg = st.cfg
        out = st.next_slot
        if len(st.h) >= cfg["pool"]:
            return {"op": "drop", "on": min(st.h)}
        meshes, fields = st.slots("M"), st.slots("F")
        if not meshes:
            spec = self.ensure_mesh(rng, st, cfg["max_cells"], 1)
            st.extra["first_mesh_spec"] = {k: v for k, v in spec.items() if k not in ("op", "out")}
            return spec
        r = rng.random()
        if len(fields) < 2 or r < 0.15:
            if meshes and rng.random() < 0.2 and len(meshes) < 3:
                # an equal-but-distinct mesh (same geometry, different object) or another mesh
                r2 = rng.random()
                if r2 < 0.45:
                    src = st.extra.get("first_mesh_spec")
                    if src:
                        return dict(src, op="Mesh.new", out=out)
                if r2 < 0.75:
                    # same cell counts at another place (or the same place with other subregions)
                    return dict(draw_twin_spec(rng, st.h[rng.choice(meshes)].box.v), op="Mesh.new", out=out)
                return self.ensure_mesh(rng, st, cfg["max_cells"], 1)
            ms = rng.choice(meshes)
            o = draw_field_new(rng, ms, out, st.h[ms].box.v, nvdim=rng.choice(cfg["nvdims"]), dtypes=cfg["dtypes"], p_unmapped=0.1, p_scalar_label=0.3)
            if o["value"].get("kind") == "idx":
                o["value"] = {"kind": "rint", "seed": rng.randrange(2**31), "lo": -6, "hi": 7, "step": rng.choice([1.0, 0.5, 0.25])}
            return o
        queue = st.extra.setdefault("queue", [])
        if queue:
            o = queue.pop(0)
            if "out" in o:
                o["out"] = out
            return o
        a = rng.choice(fields)
        ha = st.h[a]
        if rng.random() < 0.04 and ha.fm.array.dtype.kind == "f":
            # evaluate - update the operand in place - evaluate again: the second result
            # must be computed from the current values (nothing remembered from the first)
            same = [s for s in fields if st.h[s].box.v.key()[:2] == ha.box.v.key()[:2] and st.h[s].fm.nvdim == ha.fm.nvdim]
            b = rng.choice(same)
            f = rng.choice(["angle", "angle", "dot"])
            upd = {"op": "A.inplace", "on": a, "f": rng.choice(["add", "multiply", "subtract"]), "x": rng.choice([2, -1, 0.5, 3])} if rng.random() < 0.5 else {"op": "F.poke", "on": a, "i": rng.randrange(10**6), "v": [rng.choice([0.0, 1.0, -3.0, 2.5]) for _ in range(ha.fm.nvdim)], "whole_cell": True}
            queue += [upd, {"op": "A.vecop", "a": a, "b": b, "f": f, "out": None, "operator": False}, {"op": "A.vecop", "a": b, "b": a, "f": f, "out": None, "operator": False}]
            st.stats.probe("evaluate_update_evaluate")
            return {"op": "A.vecop", "a": a, "b": b, "f": f, "out": out, "operator": False}
        if rng.random() < 0.06:
            # evaluate a (op) b on equal-but-distinct meshes - move b's mesh in place - a (op) b must now be refused
            twins = [(x, m) for x in fields for m in meshes if st.h[x].box is st.h[m].box and st.h[x].box is not ha.box
                     and st.h[x].box.v.key()[:2] == ha.box.v.key()[:2] and st.h[x].fm.nvdim == ha.fm.nvdim
                     # (a resampled field keeps the Region OBJECT of its source mesh; moving that mesh in place
                     # moves both - no claimed property speaks about it, so such meshes are left alone)
                     and not any(st.h[y].obj.mesh.region is st.h[m].obj.region for y in fields if st.h[y].box is not st.h[m].box)]
            if twins:
                b, mb = rng.choice(twins)
                mm = st.h[mb].box.v
                ax = rng.randrange(mm.region.ndim)
                v = [0.0] * mm.region.ndim
                v[ax] = float(mm.cell[ax]) * rng.choice([1, 2, -1])
                f = rng.choice(["add", "mul", "sub"])
                queue += [{"op": "translate", "on": mb, "v": v, "inplace": True, "out": None},
                          {"op": "A.reject", "a": a, "b": b, "f": f, "fault": "rejected_args"}, {"op": "A.reject", "a": b, "b": a, "f": rng.choice(["dot", "add", "np.add"]), "fault": "rejected_args"}]
                st.stats.probe("evaluate_move_mesh_evaluate")
                return {"op": "A.binary", "a": a, "b": b, "f": f, "out": out}
        if rng.random() < cfg["p_reject"] and len(fields) >= 2:
            if rng.random() < 0.3 and max(ha.box.v.n) > 1:
                # the same region, other cell counts (1 along some axes: shapes numpy would
                # broadcast); the finer field goes on the left of the refused combination
                ones = [rng.random() < 0.5 for _ in ha.box.v.n]
                if not any(o1 and k > 1 for o1, k in zip(ones, ha.box.v.n)):
                    ones[max(range(len(ones)), key=lambda k: ha.box.v.n[k])] = True
                queue.append({"op": "A.reject", "a": a, "b": out, "f": rng.choice(["add", "sub", "mul", "truediv", "dot", "cross", "angle"]), "fault": "rejected_args"})
                return {"op": "A.resample", "on": a, "ones": ones, "out": out}
            if rng.random() < 0.3:
                nv = ha.fm.nvdim
                bad = {"vec": [1.0] * rng.choice([k for k in (2, 3, 4, 5) if k != nv]), "as": rng.choice(["list", "tuple", "ndarray"])} if nv > 1 and rng.random() < 0.6 else {"bad": rng.choice(["str", "none", "dict"])}
                return {"op": "A.reject", "a": a, "b": bad, "f": rng.choice(["add", "sub", "sub", "mul", "truediv"]), "reflected": rng.random() < 0.6, "fault": "rejected_args"}
            b = rng.choice([s for s in fields if s != a])
            # preferably a scalar with a vector on another mesh with the SAME cell counts (shapes numpy would broadcast)
            pref = [s for s in fields if s != a and st.h[s].box is not ha.box and tuple(st.h[s].box.v.n) == tuple(ha.box.v.n) and st.h[s].box.v.key()[:2] != ha.box.v.key()[:2]
                    and (st.h[s].fm.nvdim == 1) != (ha.fm.nvdim == 1)]
            if pref and rng.random() < 0.6:
                return {"op": "A.reject", "a": a, "b": rng.choice(pref), "f": rng.choice(["add", "sub", "mul", "truediv"]), "fault": "rejected_args"}
            return {"op": "A.reject", "a": a, "b": b, "f": rng.choice(["add", "sub", "mul", "truediv", "dot", "cross", "angle", "lshift", "np.add", "np.multiply", "np.subtract"]), "fault": "rejected_args"}
        r = rng.random()
        if ha.fm.array.dtype.kind == "c" and rng.random() < 0.15:
            sm = [s for s in fields if st.h[s].fm.nvdim == ha.fm.nvdim and st.h[s].box.v.key()[:2] == ha.box.v.key()[:2]]
            return {"op": "A.vecop", "a": a, "b": rng.choice(sm), "f": "dot", "out": out, "operator": rng.random() < 0.3}
        if rng.random() < 0.05:
            # stack fields that carry different labels / mappings (merged into the result, never into an operand)
            oth = [s for s in fields if s != a and st.h[s].box.v.key()[:2] == ha.box.v.key()[:2] and st.h[s].fm.vdims != ha.fm.vdims and st.h[s].fm.nvdim + ha.fm.nvdim <= 6]
            if oth:
                return {"op": "A.lshift", "parts": [a, rng.choice(oth)], "out": out}
        if r < 0.12:
            return {"op": "A.unary", "on": a, "f": rng.choice(["neg", "pos", "abs"]), "out": out}
        if r < 0.5:
            f = rng.choice(["add", "sub", "mul", "mul", "truediv", "pow"])
            b = self.operand(rng, st, ha, fields)
            o = {"op": "A.binary", "a": a, "b": b, "f": f, "out": out}
            if f == "pow":
                o["b"] = {"num": rng.choice([2, 3, 0, 1, -1, 0.5, -1.0, -2.0, 2.0])}
            if not isinstance(o["b"], int) and rng.random() < 0.4:
                o["reflected"] = True  # number (op) field - also 2 ** f
                if f == "pow":
                    o["b"] = {"num": rng.choice([2, 3, 0.5, 1, 2.0])}
            return o
        if r < 0.62:
            f = rng.choice(["dot", "cross", "angle"])
            b = self.operand(rng, st, ha, [s for s in fields if st.h[s].fm.nvdim == ha.fm.nvdim], allow_arr=False)
            if isinstance(b, dict) and "num" in b:
                b = {"vec": [1.0] * ha.fm.nvdim}
            if isinstance(b, dict) and "vec" in b and len(b["vec"]) != ha.fm.nvdim:
                b = {"vec": [rng.choice([1, -2, 0.5]) for _ in range(ha.fm.nvdim)]}
            return {"op": "A.vecop", "a": a, "b": b, "f": f, "out": out, "operator": rng.random() < 0.3}
        if r < 0.7:
            same = [s for s in fields if st.h[s].box.v.key()[:2] == ha.box.v.key()[:2]]
            parts = [a] + [rng.choice(same) for _ in range(rng.randint(1, 2))]
            if sum(st.h[s].fm.nvdim for s in parts) > 6:
                parts = parts[:2]
            return {"op": "A.lshift", "parts": parts, "out": out}
        if r < 0.76:
            return {"op": "A.restack", "on": a}
        if r < 0.86:
            same = [s for s in fields if st.h[s].box.v.key()[:2] == ha.box.v.key()[:2]]
            return {"op": "A.commute", "a": a, "b": rng.choice(same), "f": rng.choice(["mul", "add"])}
        if r < 0.88:
            if rng.random() < 0.5:
                return {"op": "A.commute_num", "on": a, "kind": "npnum", "v": rng.choice([2.0, -1.0, 0.5, 3.0]), "np": rng.choice(["float64", "float64", "float32", "int64"]), "f": rng.choice(["mul", "add"])}
            return {"op": "A.commute_num", "on": a, "kind": "nparr", "v": [rng.choice([1.0, -2.0, 0.5, 3.0]) for _ in range(ha.fm.nvdim if ha.fm.nvdim > 1 else rng.choice([1, 3]))], "f": rng.choice(["mul", "add"])}
        if r < 0.91:
            return {"op": "A.cplx", "on": a, "f": rng.choice(["real", "imag", "conjugate", "phase", "abs"]), "out": out}
        if r < 0.94:
            if rng.random() < 0.5:
                return {"op": "A.inplace", "on": a, "f": rng.choice(["add", "multiply", "subtract"]), "x": rng.choice([2, -1, 0.5, 3])}
            return {"op": "F.poke", "on": a, "i": rng.randrange(10**6), "v": [rng.choice([0.0, 1.0, -3.0, 2.5]) for _ in range(ha.fm.nvdim)], "whole_cell": True}
        if rng.random() < 0.5:
            return {"op": "A.ufunc", "f": rng.choice(["sin", "exp", "square", "negative", "absolute"]), "args": [a], "out": out}
        same = [s for s in fields if st.h[s].box.v.key()[:2] == ha.box.v.key()[:2] and st.h[s].fm.nvdim == ha.fm.nvdim]
        b = rng.choice(same) if rng.random() < 0.6 else {"num": 2.0}
        args = [a, b] if rng.random() < 0.6 or isinstance(b, int) else [b, a]
        return {"op": "A.ufunc", "f": rng.choice(["add", "multiply", "subtract", "maximum", "hypot"]), "args": args, "out": out}

    def new_state(self, config, stats):
        st = super().new_state(config, stats)
        return st


class ValidityProfile(FieldProfile):
    prop = "C08"
    name = "validity"
    predict = ("valid",)
    required_probes = ("mutate_then_look", "shared_mesh")
    rule = (
        "one case = one seeded program (3-40 steps) of derive ops (unary ops, component access, norm, orientation, complex parts, "
        "diff, binary operators / dot / cross / angle / << between pool fields, sel, [] by region and name, pad, resample, "
        "rotate90, HDF5/VTK round trips through the simulated store) interleaved with MUTATIONS of any handle's validity at any "
        "later time (assignment of array/function/constant/'norm', and in-place writes into the mask buffer) and a check after "
        "every step that no other handle's validity changed; distinct = distinct sequence of (op kind, outcome); non-trivial = "
        "at least 2 steps and at least one aliasing oracle evaluation"
    )

    def _draw_config(self, rng):
        return {
            "ndim": rng.choice([1, 2, 3, 3, 3, 4]),
            "family": rng.choice(["dyadic", "nm"]),
            "steps": rng.randint(3, 40),
            "pool": rng.randint(4, 10),
            "max_cells": rng.choice([12, 60, 200]),
            "p_mutate": rng.choice([0.1, 0.25, 0.4]),
            "p_file": rng.choice([0.0, 0.05, 0.1]),
            "dtypes": rng.choice([[None], [None, "complex"]]),
        }

    def gen_op(self, rng, st):
        cfg = st.cfg
        out = st.next_slot
        if len(st.h) >= cfg["pool"]:
            return {"op": "drop", "on": min(st.h)}
        meshes, fields = st.slots("M"), st.slots("F")
        if not meshes:
            return self.ensure_mesh(rng, st, cfg["max_cells"], 2)
        if len(fields) < 2 or rng.random() < 0.1:
            ms = rng.choice(meshes)
            o = draw_field_new(rng, ms, out, st.h[ms].box.v, dtypes=cfg["dtypes"], p_valid=0.85, p_unmapped=0.1)
            if rng.random() < 0.5:
                # magnitudes for valid="norm": exact zero, <=1e-10 or >=1e-6
                o["value"] = {"kind": "rint", "seed": rng.randrange(2**31), "lo": -1, "hi": 2, "step": rng.choice([1.0, 1e-10, 1e-6, 1e3, 8e-9, 8e-9, 5e-9, 2e-8])}
            return o
        a = rng.choice(fields)
        ha = st.h[a]
        mm = ha.box.v
        nd = mm.region.ndim
        if rng.random() < cfg["p_mutate"]:
            r = rng.random()
            if r < 0.4:
                return {"op": "V.poke", "on": a, "i": rng.randrange(10**6)}
            how = rng.choice([
                {"t": "array", "a": {"kind": "mask", "seed": rng.randrange(2**31), "p": rng.choice([0.3, 0.7])}, "as": rng.choice(["bool", "bool", "int", "list"])},
                {"t": "const", "v": rng.choice([True, False]), "np": rng.random() < 0.4},
                {"t": "fn", "a": {"kind": "mask", "seed": rng.randrange(2**31), "p": 0.5}},
                {"t": "norm"},
            ])
            return {"op": "V.set", "on": a, "how": how}
        if rng.random() < cfg["p_file"]:
            return {"op": "D.file", "on": a, "fmt": rng.choice(["hdf5", "vtk"]), "rep": rng.choice(["bin", "txt", "xml"]), "restart": rng.random() < 0.3, "out": out}
        same = [s for s in fields if st.h[s].box.v.key()[:2] == mm.key()[:2]]
        r = rng.random()
        if r < 0.1:
            # unary + is left out here: it returns the field itself (recorded finding
            # C08/alias.valid/V.poke/A.unary:pos,same-object, replayed from findings/C08)
            return {"op": "A.unary", "on": a, "f": rng.choice(["neg", "abs"]), "out": out}
        if r < 0.18:
            return {"op": "F.comp", "on": a, "i": rng.randrange(4), "out": out}
        if r < 0.26:
            return {"op": "F.getnorm", "on": a, "what": rng.choice(["norm", "orientation"]), "out": out}
        if r < 0.32:
            return {"op": "A.cplx", "on": a, "f": rng.choice(["real", "imag", "conjugate", "phase", "abs"]), "out": out}
        if r < 0.4:
            if rng.random() < 0.3:
                return {"op": "D.vcalc", "on": a, "f": rng.choice(["grad", "div", "curl", "laplace", "laplace"]), "out": out}
            return {"op": "D.diff", "on": a, "d": rng.randrange(nd), "order": rng.choice([1, 2]), "r2v": rng.random() < 0.7, "out": out}
        if r < 0.42 and ha.fm.array.dtype.kind != "c":
            # the same operations spelt as numpy ufuncs
            if rng.random() < 0.5:
                return {"op": "A.ufunc", "f": rng.choice(["sin", "negative", "absolute", "square"]), "args": [a], "out": out}
            sm = [s for s in same if st.h[s].fm.nvdim == ha.fm.nvdim and st.h[s].fm.array.dtype.kind != "c"]
            b = rng.choice(sm) if sm and rng.random() < 0.7 else {"num": 2.0}
            return {"op": "A.ufunc", "f": rng.choice(["add", "multiply", "subtract"]), "args": [a, b] if rng.random() < 0.6 or isinstance(b, int) else [b, a], "out": out}
        if r < 0.46:
            # a number on the left: 0 + f, 1 * f, ... are results like any other
            return {"op": "A.binary", "a": a, "b": {"num": rng.choice([0, 0, 1, 1, 1.0, 2, -1])}, "f": rng.choice(["add", "add", "mul", "mul", "sub"]), "reflected": rng.random() < 0.7, "out": out}
        if r < 0.55:
            b = rng.choice(same)
            if st.h[b].fm.nvdim not in (1, ha.fm.nvdim) and ha.fm.nvdim != 1:
                b = a
            return {"op": "A.binary", "a": a, "b": b, "f": rng.choice(["add", "sub", "mul", "truediv"]), "out": out}
        if r < 0.63:
            sm = [s for s in same if st.h[s].fm.nvdim == ha.fm.nvdim]
            return {"op": "A.vecop", "a": a, "b": rng.choice(sm), "f": rng.choice(["dot", "cross", "angle"]), "out": out}
        if r < 0.68:
            return {"op": "A.lshift", "parts": [a, rng.choice(same)], "out": out}
        if r < 0.9:
            t = rng.choice(["plane", "range", "name", "region", "pad", "resample"])
            if t == "plane":
                how = {"t": t, "d": rng.randrange(nd), "i": rng.randrange(6), "off": rng.choice([0, 1, -1])}
            elif t == "range":
                how = {"t": t, "d": rng.randrange(nd), "i": rng.randrange(6), "w": rng.randrange(6)}
            elif t == "name":
                how = {"t": t, "i": rng.randrange(3)}
            elif t == "region":
                how = {"t": t, "lo": [rng.randrange(6) for _ in range(nd)], "w": [rng.randrange(6) for _ in range(nd)]}
            elif t == "pad":
                how = {"t": t, "d": rng.randrange(nd), "lo": rng.randint(0, 2), "hi": rng.randint(0, 2), "mode": rng.choice(["constant", "constant", "wrap", "edge", "symmetric", "reflect"])}
                if how["mode"] == "constant" and rng.random() < 0.5:
                    how["cv"] = rng.choice([7.5, 1, 0, 0.0, -2])
            else:
                # resample to a multiple or a divisor so that no new centre sits on an old face
                # (halving an even count puts every new centre on an old face: there the data decides, see D.sel)
                how = {"t": t, "n": [rng.choice([k, 2 * k, 3 * k, max(1, k // 2), max(1, k // 2), max(1, k // 2) | 1, rng.randint(1, 2 * k)]) for k in mm.n]}
            return {"op": "D.sel", "on": a, "how": how, "out": out}
        if nd >= 2:
            ax1, ax2 = rng.sample(list(mm.region.dims), 2)
            r2 = rng.random()
            if r2 < 0.3:
                # in-place rotation (validity turns with the data) - or its refusal, which
                # must leave the mask where it was
                from .ops_geom import field_rot_refused

                if field_rot_refused(ha.fm, mm, ax1, ax2):
                    return {"op": "reject", "on": a, "method": "rotate90", "args": [ax1, ax2], "kwargs": {"k": rng.choice([1, 2, 3])}, "why": "vector field lacks mapping", "inplace": True, "need": "field_unmapped", "ndim": nd, "fault": "rejected_args"}
                return {"op": "rotate90", "on": a, "ax1": ax1, "ax2": ax2, "k": rng.choice([1, 2, 3, -1]), "ref": None, "inplace": True, "out": out}
            return {"op": "D.rot", "on": a, "ax1": ax1, "ax2": ax2, "k": rng.choice([1, 2, 3, -1]), "out": out}
        return {"op": "A.unary", "on": a, "f": "neg", "out": out}


PROFILES = [ValuesProfile, NormProfile, AlgebraProfile, ValidityProfile]
