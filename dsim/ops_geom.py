"""heapsim ops: constructors and the transformation alphabet (translate, scale,
rotate90) on regions, meshes and fields, in place and copying, plus rejected steps.
Appendix A.1 of DESIGN.md."""
import numpy as np
from fractions import Fraction as Fr

from .core import HarnessError, Violation, sut
from .geom import MeshM, RegionM, cmp_mesh, cmp_region, fr, frs, rot_matrix2, rot_point
from .heap import Box, FieldM, arrays_equal, default_mapping, default_vdims, expect_ok, expect_raise, first_diff, make_array, op


# --------------------------------------------------------------------------------------
# argument decoding (JSON -> python objects handed to the library)
# --------------------------------------------------------------------------------------
def dec(x):
    """Decode a JSON literal into the python value passed to the library."""
    if isinstance(x, dict):
        if "complex" in x:
            return complex(*x["complex"])
        if "float" in x:
            return float(x["float"])  # "nan", "inf": not representable as JSON numbers
        if "ndarray" in x:
            return np.array([dec(i) for i in x["ndarray"]], dtype=x.get("dtype"))
        if "tuple" in x:
            return tuple(dec(i) for i in x["tuple"])
        if "dict" in x:
            return {k: dec(v) for k, v in x["dict"].items()}
        if "set" in x:
            return set(dec(i) for i in x["set"])
        raise HarnessError(f"cannot decode {x}")
    if isinstance(x, list):
        return [dec(i) for i in x]
    return x


def mk_region(df, spec):
    kw = {}
    if spec.get("dims") is not None:
        kw["dims"] = list(spec["dims"])
    if spec.get("units") is not None:
        kw["units"] = list(spec["units"])
    if spec.get("tol") is not None:
        kw["tolerance_factor"] = spec["tol"]
    p1, p2 = spec["p1"], spec["p2"]
    if spec.get("intcorners"):
        p1, p2 = [int(x) for x in p1], [int(x) for x in p2]
    obj = df.Region(p1=list(p1), p2=list(p2), **kw)
    m = RegionM(p1, p2, spec.get("dims"), spec.get("units"), spec.get("tol", 1e-12))
    return obj, m


def mk_mesh(df, spec):
    robj, rm = mk_region(df, spec)
    subs = {}
    subm = []
    for name, p1, p2 in spec.get("subs", []):
        if spec.get("intcorners") and spec.get("intsubs"):
            p1, p2 = [int(x) for x in p1], [int(x) for x in p2]
        subs[name] = df.Region(p1=list(p1), p2=list(p2), dims=spec.get("dims"), units=spec.get("units"))
        subm.append((name, RegionM(p1, p2)))
    obj = df.Mesh(region=robj, n=list(spec["n"]), bc=spec.get("bc", ""), subregions=subs)
    return obj, MeshM(rm, spec["n"], spec.get("bc", ""), subm)


@op("Region.new")
def op_region_new(st, o):
    res = sut(mk_region, st.df, o)
    obj, m = expect_ok(res, "Region(...)")
    st.add("R", obj, Box(m), slot=o["out"])


@op("Mesh.new")
def op_mesh_new(st, o):
    res = sut(mk_mesh, st.df, o)
    obj, m = expect_ok(res, "Mesh(...)")
    st.add("M", obj, Box(m), slot=o["out"])


def field_args(o, n):
    """Build constructor arguments and the FieldM from a Field.new record."""
    nvdim = o["nvdim"]
    dt = o.get("dtype")
    arr = make_array(dict(o["value"], shape=[*n, nvdim]))
    valid = make_array(dict(o["valid"], shape=list(n))) if o.get("valid") else np.ones(n, dtype=bool)
    vdims = o.get("vdims")
    mapping = o.get("mapping")
    kw = dict(nvdim=nvdim, value=arr.copy())
    if o.get("valid"):
        kw["valid"] = valid.copy()  # otherwise the constructor's own default (True) is exercised
    if vdims is not None:
        kw["vdims"] = list(vdims)
    if mapping is not None:
        kw["vdim_mapping"] = dict(mapping)
    if o.get("unit") is not None:
        kw["unit"] = o["unit"]
    if dt is not None:
        kw["dtype"] = {"int": np.int64, "float": np.float64, "complex": np.complex128}[dt]
        arr = arr.astype(kw["dtype"])
    return kw, arr, valid


@op("Field.new")
def op_field_new(st, o):
    mh = st.h[o["on"]]
    if mh.kind != "M":
        return "skipped"
    n = mh.box.v.n
    kw, arr, valid = field_args(o, n)
    res = sut(st.df.Field, mh.obj, **kw)
    obj = expect_ok(res, "Field(...)")
    nvdim = o["nvdim"]
    vdims = o.get("vdims") or default_vdims(nvdim)
    mapping = o.get("mapping")
    if mapping is None:
        mapping = default_mapping(nvdim, vdims, mh.box.v.region.dims)
    fm = FieldM(nvdim, arr, valid.astype(bool), vdims, mapping, o.get("unit"))
    st.add("F", obj, mh.box, fm, slot=o["out"], meta={"dtype": o.get("dtype")})  # the field lives on the pool mesh: shared Box
    if len(st.sharers(mh.box)) > 1:
        st.stats.probe("shared_mesh")


@op("drop")
def op_drop(st, o):
    st.h.pop(o["on"], None)


# --------------------------------------------------------------------------------------
# field rotation model
# --------------------------------------------------------------------------------------
def rot_axes(region_m, ax1, ax2):
    dims = region_m.dims
    if ax1 not in dims or ax2 not in dims or ax1 == ax2:
        return None
    return dims.index(ax1), dims.index(ax2)


def rot_field_model(fm, mesh_m, ia, ib, k, ref):
    """Exact model of a quarter-turn rotation of a field: returns (FieldM, MeshM).

    Cell values move by an index map derived from exact geometry (source centre ->
    rotated point -> containing cell of the rotated mesh); mapped components are mixed
    with the integer quarter-turn matrix."""
    new_mesh = mesh_m.rotate90(ia, ib, k, ref)
    r = mesh_m.region.center if ref is None else frs(ref)
    na, nb = mesh_m.n[ia], mesh_m.n[ib]
    na2, nb2 = new_mesh.n[ia], new_mesh.n[ib]
    src_a = np.full((na2, nb2), -1, dtype=int)
    src_b = np.full((na2, nb2), -1, dtype=int)
    base = [0] * mesh_m.region.ndim
    for i in range(na):
        for j in range(nb):
            idx = list(base)
            idx[ia], idx[ib] = i, j
            p = mesh_m.centre_of(idx)
            q = rot_point(p, ia, ib, k, r)
            # only axes ia and ib moved; look the cell up along these two axes exactly
            t = []
            for ax in (ia, ib):
                c = new_mesh.cell[ax]
                x = (q[ax] - new_mesh.region.pmin[ax]) / c
                ti = x - type(x)(1) / 2
                if ti.denominator != 1 or not 0 <= ti < new_mesh.n[ax]:
                    raise HarnessError(f"rotation model: centre does not map onto a cell centre ({float(x)})")
                t.append(int(ti))
            src_a[t[0], t[1]] = i
            src_b[t[0], t[1]] = j
    if (src_a < 0).any():
        raise HarnessError("rotation model: index map not onto")

    def move(a):
        a2 = np.moveaxis(a, (ia, ib), (0, 1))
        out = a2[src_a, src_b]
        return np.moveaxis(out, (0, 1), (ia, ib))

    arr = move(fm.array).copy()
    valid = move(fm.valid).copy()
    vtol = fm.vtol
    if fm.nvdim > 1:
        rmap = {v: kx for kx, v in fm.mapping.items()}
        da, db = mesh_m.region.dims[ia], mesh_m.region.dims[ib]
        ca, cb = fm.vdims.index(rmap[da]), fm.vdims.index(rmap[db])
        q = rot_matrix2(k)
        va, vb = arr[..., ca].copy(), arr[..., cb].copy()
        arr[..., ca] = q[0][0] * va + q[0][1] * vb
        arr[..., cb] = q[1][0] * va + q[1][1] * vb
        if arr.dtype.kind in "fc":
            mx = float(np.max(np.abs(arr))) if arr.size else 0.0
            vtol = vtol + abs(k) * 8 * 2.0**-52 * mx
    return FieldM(fm.nvdim, arr, valid, fm.vdims, fm.mapping, fm.unit, vtol), new_mesh


def field_rot_refused(fm, mesh_m, ax1, ax2):
    """True when the property says the rotation of this field must be refused."""
    if fm.nvdim == 1:
        return False
    rmap = {v: kx for kx, v in fm.mapping.items()}
    return rmap.get(ax1) not in (fm.vdims or []) or rmap.get(ax2) not in (fm.vdims or [])


# --------------------------------------------------------------------------------------
# the three transformations
# --------------------------------------------------------------------------------------
def _eq_lib(st, kind, a, b, atol):
    """in-place == copy: compare two library objects of the same kind."""
    out = []
    if kind == "R":
        ra, rb = a, b
    else:
        ra, rb = (a.region, b.region) if kind == "M" else (a.mesh.region, b.mesh.region)
    for nm in ("pmin", "pmax"):
        x, y = np.asarray(getattr(ra, nm)), np.asarray(getattr(rb, nm))
        if x.shape != y.shape or not np.all(np.abs(x - y) <= float(atol)):
            out.append(f"{nm}: in-place {x.tolist()} vs copy {y.tolist()}")
    if tuple(ra.units) != tuple(rb.units):
        out.append(f"units: in-place {tuple(ra.units)} vs copy {tuple(rb.units)}")
    if tuple(ra.dims) != tuple(rb.dims):
        out.append(f"dims: in-place {tuple(ra.dims)} vs copy {tuple(rb.dims)}")
    if kind in "MF":
        ma, mb = (a, b) if kind == "M" else (a.mesh, b.mesh)
        if not np.array_equal(ma.n, mb.n):
            out.append(f"n: in-place {np.asarray(ma.n).tolist()} vs copy {np.asarray(mb.n).tolist()}")
        if ma.bc != mb.bc:
            out.append(f"bc: in-place {ma.bc!r} vs copy {mb.bc!r}")
        if list(ma.subregions) != list(mb.subregions):
            out.append(f"subregion names: in-place {list(ma.subregions)} vs copy {list(mb.subregions)}")
        else:
            for key in ma.subregions:
                sa, sb = ma.subregions[key], mb.subregions[key]
                if not (np.all(np.abs(np.asarray(sa.pmin) - np.asarray(sb.pmin)) <= float(atol)) and np.all(np.abs(np.asarray(sa.pmax) - np.asarray(sb.pmax)) <= float(atol))):
                    out.append(f"subregion {key}: in-place {sa.pmin.tolist()},{sa.pmax.tolist()} vs copy {sb.pmin.tolist()},{sb.pmax.tolist()}")
                if tuple(sa.units) != tuple(sb.units):
                    out.append(f"subregion {key} units: in-place {tuple(sa.units)} vs copy {tuple(sb.units)}")
    if kind == "F":
        if a.array.shape != b.array.shape or not arrays_equal(np.asarray(a.array), np.asarray(b.array)):
            out.append("array: in-place differs from copy")
        if a.valid.shape != b.valid.shape or not np.array_equal(a.valid, b.valid):
            out.append("valid: in-place differs from copy")
        if a.vdims != b.vdims or dict(a.vdim_mapping) != dict(b.vdim_mapping) or a.unit != b.unit:
            out.append("vdims/mapping/unit: in-place differs from copy")
    return out


def _cmp_new(st, kind, obj, model, fm, steps, what):
    atol = st.atol(model, steps)
    if kind == "R":
        return cmp_region(obj, model, atol, what)
    if kind == "M":
        return cmp_mesh(obj, model, atol, what, subs=st.check_subs, bc=st.check_bc)
    from .heap import Handle

    tmp = Handle("F", obj, Box(model, steps), fm)
    return st.cmp_field(obj, tmp, what)


def _transform(st, o, method, args, kwargs, model_fn, field_model_fn=None):
    """Common protocol for one transformation step (DESIGN 5.4-3).

    1. copying form on the handle: result must realise the model's map and the handle
       must still equal its shadow;
    2. if the step is in place: in-place form must return the handle itself, leave it
       equal to what the copying form returned and to the model."""
    s = o["on"]
    h = st.h[s]
    kind = h.kind
    inplace = bool(o.get("inplace"))
    old = h.box.v
    if kind == "F":
        new_fm, new_m = field_model_fn(h.fm, old)
    else:
        new_fm, new_m = None, model_fn(old)
    st.touch(new_m)
    steps = h.box.steps + 1
    if st.extra.pop("just_rejected", None) == s:
        st.stats.probe("reject_then_ok")  # counted here, asserted by expect_ok below
    call = f"{'RMF'.index(kind) and ('Mesh' if kind == 'M' else 'Field') or 'Region'}.{method}"
    res = sut(getattr(h.obj, method), *args, **kwargs)
    new = expect_ok(res, f"{call}(copy) {o}", "H")
    if new is h.obj:
        raise Violation("copy.returns_new", f"{call} copying form returned the object itself", kind="H")
    bad = _cmp_new(st, kind, new, new_m, new_fm, steps, "result")
    st.stats.oracle("H")
    if bad:
        raise Violation("map.copy", f"{call}(copy) {_short(o)}: " + "; ".join(bad[:5]), preds=[kind], kind="H")
    # copying form leaves the original untouched (and everything else, checked after the step)
    st.check_refines(s, h)
    if st.invariants:
        st.check_invariants(s, h)
    if not inplace:
        st.add(kind, new, Box(new_m, steps), new_fm, slot=o["out"])
        return "copy"
    shared = st.sharers(h.box, but=s)
    if shared:
        st.stats.probe("inplace_on_shared")
    res = sut(getattr(h.obj, method), *args, inplace=True, **kwargs)
    ret = expect_ok(res, f"{call}(inplace) {_short(o)}", "H")
    if ret is not h.obj:
        raise Violation("inplace.returns_self", f"{call}(inplace=True) returned {type(ret).__name__}, not the object itself", kind="H")
    if kind == "F":
        # the field is rotated; every other holder of its mesh keeps the old geometry
        h.box = Box(new_m, steps)
        h.fm = new_fm
    else:
        h.box.v = new_m
        h.box.steps = steps
    bad = _eq_lib(st, kind, h.obj, new, st.atol(new_m, steps))
    st.stats.oracle("H")
    if bad:
        raise Violation("inplace_eq_copy", f"{call} {_short(o)}: " + "; ".join(bad[:5]), preds=[kind], kind="H")
    return "inplace"


def _short(o):
    return {k: v for k, v in o.items() if k not in ("op", "out")}


def own_point(h, name):
    """The live corner array of the handle's own region / of one of its subregions."""
    obj = h.obj
    mesh = obj if h.kind == "M" else (obj.mesh if h.kind == "F" else None)
    reg = obj if h.kind == "R" else mesh.region
    parts = name.split(":")
    if parts[0] == "sub":
        subs = list(mesh.subregions.values()) if mesh is not None else []
        if int(parts[1]) >= len(subs):
            return None
        reg = subs[int(parts[1])]
        parts = parts[2:]
    return getattr(reg, parts[0])


@op("translate")
def op_translate(st, o):
    h = st.h[o["on"]]
    if h.kind not in "RM":
        return "skipped"
    v = o["v"]
    if len(v) != h.box.v.ndim if h.kind == "R" else len(v) != h.box.v.region.ndim:
        return "skipped"
    st.touch(v)
    arg = dec(o["varg"]) if "varg" in o else list(v)
    return _transform(st, o, "translate", (arg,), {}, lambda m: m.translate(v))


@op("scale")
def op_scale(st, o):
    h = st.h[o["on"]]
    if h.kind not in "RM":
        return "skipped"
    nd = h.box.v.ndim if h.kind == "R" else h.box.v.region.ndim
    f = o["factor"]
    ref = o.get("ref")
    if (isinstance(f, list) and len(f) != nd) or (ref is not None and len(ref) != nd):
        return "skipped"
    kw = {} if ref is None else {"reference_point": list(ref)}
    if o.get("ref_own"):
        arr = own_point(h, o["ref_own"])
        if arr is None:
            return "skipped"
        ref, kw = [float(x) for x in arr], {"reference_point": arr}
        st.stats.probe("reference_is_own_corner_array")
    st.touch(ref)
    farg = dec(o["farg"]) if "farg" in o else (list(f) if isinstance(f, list) else f)
    args = (farg,)
    if o.get("positional") and "reference_point" in kw:
        args, kw = (farg, kw["reference_point"]), {}  # scale(factor, reference_point): the documented order, positionally
        st.stats.probe("positional_arguments")
    return _transform(st, o, "scale", args, kw, lambda m: m.scale(f, ref))


@op("rotate90")
def op_rotate90(st, o):
    h = st.h[o["on"]]
    if h.kind not in "RMF":
        return "skipped"
    reg = h.box.v if h.kind == "R" else h.box.v.region
    axes = rot_axes(reg, o["ax1"], o["ax2"])
    ref = o.get("ref")
    if axes is None or (ref is not None and len(ref) != reg.ndim):
        return "skipped"
    ia, ib = axes
    k = o["k"]
    if h.kind == "F" and field_rot_refused(h.fm, h.box.v, o["ax1"], o["ax2"]):
        return "skipped"
    if h.kind == "M" and o.get("inplace") and st.fields_on(h.box):
        return "skipped"  # policy P3
    kw = {"k": getattr(np, o["knp"])(k) if o.get("knp") else k}
    if ref is not None:
        kw["reference_point"] = list(ref)
    if o.get("ref_own"):
        arr = own_point(h, o["ref_own"])
        if arr is None:
            return "skipped"
        ref, kw["reference_point"] = [float(x) for x in arr], arr
        st.stats.probe("reference_is_own_corner_array")
    st.touch(ref)
    args = (o["ax1"], o["ax2"])
    if o.get("positional"):
        # rotate90(ax1, ax2, k, reference_point): the documented order, positionally
        args = (o["ax1"], o["ax2"], kw.pop("k")) + ((kw.pop("reference_point"),) if "reference_point" in kw else ())
        st.stats.probe("positional_arguments")
    return _transform(
        st,
        o,
        "rotate90",
        args,
        kw,
        lambda m: m.rotate90(ia, ib, k, ref),
        lambda fm, m: rot_field_model(fm, m, ia, ib, k, ref),
    )


@op("scale_extreme")
def op_scale_extreme(st, o):
    """"any non-zero factors": a power of two far outside the band the histories stay in (2**-60 ...
    2**60), about the origin, where R + s*(x - R) involves no cancellation. The copying form must
    accept it and return the scaled corners (1e-9 of the smallest scaled edge); the result is not kept (out of band)."""
    h = st.h[o["on"]]
    if h.kind not in "RM":
        return "skipped"
    reg = h.box.v if h.kind == "R" else h.box.v.region
    if h.kind == "M" and h.box.v.subs:
        return "skipped"
    f = 2.0 ** o["e"]
    pmin, pmax = [float(x) for x in reg.pmin], [float(x) for x in reg.pmax]
    if any(fr(x) != Fr(float(x)) for x in list(reg.pmin) + list(reg.pmax)):
        return "skipped"  # corners that are not floats themselves (after inexact steps): no exact expectation
    res = sut(h.obj.scale, f, reference_point=[0.0] * reg.ndim)
    new = expect_ok(res, f"{'Region' if h.kind == 'R' else 'Mesh'}.scale(2**{o['e']}, reference_point=origin)", "H", preds=["extreme factor"])
    r2 = new if h.kind == "R" else new.region
    want_min, want_max = [x * f for x in pmin], [x * f for x in pmax]
    got_min, got_max = [float(x) for x in r2.pmin], [float(x) for x in r2.pmax]
    st.stats.oracle("H")
    st.stats.probe("extreme_factor")
    tol = 1e-9 * min(b - a for a, b in zip(want_min, want_max))  # (the library adds the scaled edges to the scaled lower corner: last-digit differences)
    if any(abs(g - w) > tol for g, w in zip(got_min + got_max, want_min + want_max)):
        raise Violation("map.copy", f"scale(2**{o['e']}) about the origin: corners {got_min}..{got_max}, exact result {want_min}..{want_max}", preds=[h.kind, "extreme factor"], kind="H")
    st.check_refines(o["on"], h)
    return "scaled-extreme"


@op("collapse")
def op_collapse(st, o):
    """A step with an extreme but well-formed argument (far translation, far reference point, tiny
    factor) on a mesh with subregions: rounding may collapse a small subregion while the region
    itself survives. Whether it does is the library's arithmetic, so the COPYING form decides: if
    it refuses the step, the in-place form must refuse it too and leave the mesh as it was
    (C13: rejected in both forms without modifying the object). If the copying form accepts, the
    step is outside the band the model follows and nothing further is done."""
    s = o["on"]
    h = st.h[s]
    if h.kind != "M" or not h.box.v.subs:
        return "skipped"
    method = o["method"]
    if method == "rotate90" and (st.fields_on(h.box) or rot_axes(h.box.v.region, *o["args"][:2]) is None):
        return "skipped"  # P3
    nd = h.box.v.region.ndim
    args = [dec(a) for a in o["args"]]
    kwargs = {k: dec(v) for k, v in o.get("kwargs", {}).items()}
    if any(isinstance(v, list) and len(v) != nd for v in list(args) + list(kwargs.values())):
        return "skipped"
    res = sut(getattr(h.obj, method), *args, **kwargs)
    st.check_refines(s, h)  # the copying form never touches the original
    if not res.raised:
        st.stats.hit("observed/collapse_candidate_accepted:" + method)
        return "copy-accepted"
    st.stats.fault("rejected_args")
    st.stats.oracle("F")
    res2 = sut(getattr(h.obj, method), *args, inplace=True, **kwargs)
    why = "subregion degenerate by rounding"
    if not res2.raised:
        raise Violation("reject.accepted", f"Mesh.{method}(*{o['args']}, **{o.get('kwargs', {})}) is refused by the copying form ({type(res.e).__name__}: {str(res.e)[:120]}) but accepted in place", preds=["M", method, "inplace", why], kind="F")
    try:
        st.check_refines(s, h)
        if st.invariants:
            st.check_invariants(s, h)
        for s2 in st.sharers(h.box, but=s):
            st.check_refines(s2, st.h[s2])
    except Violation as v:
        raise Violation("reject.modified", f"Mesh.{method}(*{o['args']}, **{o.get('kwargs', {})}, inplace=True) raised {type(res2.e).__name__} but modified the mesh: {v.message}", preds=["M", method, "inplace", why], kind="F") from None
    st.stats.probe("refused_by_subregion_collapse")
    st.extra["just_rejected"] = s
    return "rejected"


@op("reject")
def op_reject(st, o):
    """A step with malformed or degenerate arguments: must raise in both forms and
    leave the handle equal to its shadow (checked by the whole-heap pass)."""
    s = o["on"]
    h = st.h[s]
    method = o["method"]
    if not hasattr(h.obj, method):
        return "skipped"
    if o.get("need") == "field_unmapped":
        if h.kind != "F" or not field_rot_refused(h.fm, h.box.v, *o["args"][:2]):
            return "skipped"
        reg = h.box.v.region
        if rot_axes(reg, *o["args"][:2]) is None:
            return "skipped"
    if "ndim" in o:
        reg = h.box.v if h.kind == "R" else h.box.v.region
        if reg.ndim != o["ndim"]:
            return "skipped"
    if h.kind == "M" and method == "rotate90" and st.fields_on(h.box):
        return "skipped"  # P3: never a mesh-level rotation under live fields
    args = [dec(a) for a in o["args"]]
    kwargs = {k: dec(v) for k, v in o.get("kwargs", {}).items()}
    st.stats.fault("rejected_args")
    forms = [False, True] if o.get("inplace") else [True, False]
    for inplace in forms:
        res = sut(getattr(h.obj, method), *args, inplace=inplace, **kwargs)
        st.stats.oracle("F")
        form = "inplace" if inplace else "copy"
        if not res.raised:
            # accepted: before blaming, see whether the object is still sane - the
            # signature separates "accepted and broke the object" from "accepted"
            raise Violation(
                "reject.accepted",
                f"{type(h.obj).__name__}.{method}(*{o['args']}, **{o.get('kwargs', {})}, inplace={inplace}) was accepted; the property demands rejection ({o.get('why')})",
                preds=[h.kind, method, form, o.get("why", "")],
                kind="F",
            )
        # failure atomicity: the handle (and everything else) still equals its shadow
        try:
            st.check_refines(s, h)
            if st.invariants:
                st.check_invariants(s, h)
            for s2 in st.sharers(h.box, but=s):
                st.check_refines(s2, st.h[s2])
        except Violation as v:
            raise Violation(
                "reject.modified",
                f"{type(h.obj).__name__}.{method}(*{o['args']}, **{o.get('kwargs', {})}, inplace={inplace}) raised {type(res.e).__name__} but modified the object: {v.message}",
                preds=[h.kind, method, form, o.get("why", "")],
                kind="F",
            ) from None
    st.extra["just_rejected"] = s
    return "rejected"
