"""In-process fakes for the peers of the package's files (DESIGN 6.1): foreign OVF
1.0/2.0 writers, an independent OVF 2.0 parser, a legacy-HDF5 writer, a legacy
(point-data) VTK writer, and an independent VTK consumer that locates cells by position.

Written from the format descriptions, sharing no code with discretisedfield."""
import re
import struct

import numpy as np


# --------------------------------------------------------------------------------------
# independent OVF 2.0 parser
# --------------------------------------------------------------------------------------
class OvfParseError(Exception):
    pass


def parse_ovf2(data):
    """Decode the bytes of an OVF 2.0 file. Returns dict(header, array[nx,ny,nz,dim])."""
    lines = []
    pos = 0
    mode = None
    while True:
        nl = data.find(b"\n", pos)
        if nl < 0:
            raise OvfParseError("no data block")
        line = data[pos:nl].decode("utf-8")
        pos = nl + 1
        lines.append(line)
        if line.lower().startswith("# begin: data"):
            mode = line.split()[3:]
            break
    if not lines[0].startswith("# OOMMF OVF 2.0"):
        raise OvfParseError(f"first line {lines[0]!r}")
    hdr = {}
    seen = [ln.strip().lower() for ln in lines]
    for need in ("# segment count: 1", "# begin: segment", "# begin: header", "# end: header"):
        if need not in seen:
            raise OvfParseError(f"missing line {need!r}")
    for ln in lines:
        m = re.match(r"#\s*([A-Za-z ]+?)\s*:\s*(.*)$", ln)
        if m:
            hdr[m.group(1).strip().lower()] = m.group(2).strip()
    try:
        nx, ny, nz = (int(hdr[k + "nodes"]) for k in "xyz")
        dim = int(hdr["valuedim"])
    except KeyError as e:
        raise OvfParseError(f"missing header field {e}") from None
    count = nx * ny * nz * dim
    if [m.lower() for m in mode[:1]] == ["binary"]:
        nb = int(mode[1])
        fmt, check = {4: ("<f4", 1234567.0), 8: ("<f8", 123456789012345.0)}[nb]
        cv = np.frombuffer(data[pos : pos + nb], dtype=fmt)
        if len(cv) != 1 or cv[0] != check:
            raise OvfParseError("bad check value")
        pos += nb
        raw = data[pos : pos + count * nb]
        if len(raw) != count * nb:
            raise OvfParseError("short data block")
        arr = np.frombuffer(raw, dtype=fmt).astype("f8")
        rest = data[pos + count * nb :]
    elif [m.lower() for m in mode[:1]] == ["text"]:
        vals = []
        rest_lines = data[pos:].decode("utf-8").split("\n")
        k = 0
        while len(vals) < count and k < len(rest_lines):
            ln = rest_lines[k]
            k += 1
            if ln.startswith("#"):
                break
            vals.extend(float(t) for t in ln.split())
        if len(vals) != count:
            raise OvfParseError(f"text data: {len(vals)} values, expected {count}")
        arr = np.array(vals, dtype="f8")
        rest = "\n".join(rest_lines[k:]).encode()
    else:
        raise OvfParseError(f"unknown data mode {mode}")
    tail = rest.decode("utf-8", "replace").lower()
    if "# end: data" not in tail or "# end: segment" not in tail:
        raise OvfParseError("missing end markers")
    # x runs fastest, then y, then z; components innermost
    a = arr.reshape(nz, ny, nx, dim).transpose(2, 1, 0, 3)
    return {"header": hdr, "array": a, "n": (nx, ny, nz), "dim": dim}


# --------------------------------------------------------------------------------------
# foreign OVF writers
# --------------------------------------------------------------------------------------
def _fmt(x):
    return repr(float(x))


def write_foreign_ovf(path, dialect, pmin, pmax, n, array, labels=None, unit="A/m", meshunit="m"):
    """Write ``array`` (shape nx,ny,nz,dim) as a foreign program would.

    dialect: dict(version=1|2, rep='txt'|'bin4'|'bin8', style='oommf'|'mumax')"""
    version, rep, style = dialect["version"], dialect["rep"], dialect.get("style", "oommf")
    nx, ny, nz = n
    dim = array.shape[-1]
    cell = [(b - a) / k for a, b, k in zip(pmin, pmax, n)]
    L = []
    if version == 1:
        L += ["# OOMMF: rectangular mesh v1.0", "# Segment count: 1", "# Begin: Segment", "# Begin: Header",
              "# Title: Oxs_TimeDriver::Magnetization", "# Desc: Oxs vector field output", "# Desc:  MIF source file: /x/y.mif",
              f"# meshunit: {meshunit}", f"# valueunit: {unit}", "# valuemultiplier: 1"]
    else:
        L += ["# OOMMF OVF 2.0", "#", "# Segment count: 1", "#", "# Begin: Segment", "# Begin: Header", "#"]
        if style == "mumax":
            L += ["# Title: m", "# meshtype: rectangular", f"# meshunit: {meshunit}"]
        else:
            L += ["# Title: Oxs_TimeDriver::Magnetization", "# Desc: Oxs vector field output", "# meshtype: rectangular", f"# meshunit: {meshunit}"]
    for k, v in zip("xyz", pmin):
        L.append(f"# {k}min: {_fmt(v)}")
    for k, v in zip("xyz", pmax):
        L.append(f"# {k}max: {_fmt(v)}")
    if version == 2:
        L.append(f"# valuedim: {dim}")
        lab = labels or [f"m_{c}" for c in "xyzuvw"[:dim]]
        L.append("# valuelabels: " + " ".join(lab))
        L.append("# valueunits: " + " ".join([unit] * dim))
        if style == "mumax":
            L.append("# Desc: Total simulation time:  0  s")
    else:
        L += ["# ValueRangeMinMag: 1e-08", "# ValueRangeMaxMag: 1e6"]
    for k, v, c in zip("xyz", pmin, cell):
        L.append(f"# {k}base: {_fmt(v + c / 2)}")
    for k, v in zip("xyz", n):
        L.append(f"# {k}nodes: {v}")
    for k, v in zip("xyz", cell):
        L.append(f"# {k}stepsize: {_fmt(v)}")
    L.append("# End: Header")
    if version == 2 and style != "mumax":
        L.append("#")
    flat = np.ascontiguousarray(array.transpose(2, 1, 0, 3)).reshape(-1, dim)
    out = bytearray()
    layout = None
    if rep == "txt":
        L.append("# Begin: Data Text")
        out += ("\n".join(L) + "\n").encode()
        trail = " " if style == "mumax" else ""
        for row in flat:
            out += (" ".join(repr(float(v)) for v in row) + trail + "\n").encode()
        out += b"# End: Data Text\n# End: Segment\n"
    else:
        nb = 4 if rep == "bin4" else 8
        L.append(f"# Begin: Data Binary {nb}")
        out += ("\n".join(L) + "\n").encode()
        header = len(out)
        end = ">" if version == 1 else "<"
        code = "f" if nb == 4 else "d"
        out += struct.pack(end + code, 1234567.0 if nb == 4 else 123456789012345.0)
        out += flat.astype(end + ("f4" if nb == 4 else "f8")).tobytes()
        data_end = len(out)
        out += f"\n# End: Data Binary {nb}\n# End: Segment\n".encode()
        layout = {"header": header, "check": header + nb, "data": data_end, "size": len(out), "chunks": []}
    with open(path, "wb") as f:
        f.write(bytes(out))
    return layout


# --------------------------------------------------------------------------------------
# legacy HDF5 writer (the layout the package's legacy reader addresses)
# --------------------------------------------------------------------------------------
def write_legacy_hdf5(path, p1, p2, n, array):
    import h5py

    with h5py.File(path, "w") as f:
        g = f.create_group("field")
        m = g.create_group("mesh")
        r = m.create_group("region")
        r.create_dataset("p1", data=np.asarray(p1, dtype="f8"))
        r.create_dataset("p2", data=np.asarray(p2, dtype="f8"))
        m.create_dataset("n", data=np.asarray(n, dtype="i8"))
        g.create_dataset("dim", data=int(array.shape[-1]))
        g.create_dataset("array", data=array)


# --------------------------------------------------------------------------------------
# legacy VTK writer: point data at the cell centres (discretisedfield <= 0.61)
# --------------------------------------------------------------------------------------
def write_legacy_vtk(path, pmin, pmax, n, array):
    nx, ny, nz = n
    dim = array.shape[-1]
    cell = [(b - a) / k for a, b, k in zip(pmin, pmax, n)]
    L = ["# vtk DataFile Version 3.0", "Field", "ASCII", "DATASET RECTILINEAR_GRID", f"DIMENSIONS {nx} {ny} {nz}"]
    for name, a, c, k in zip("XYZ", pmin, cell, n):
        L.append(f"{name}_COORDINATES {k} float")
        L.append(" ".join(repr(float(a + (i + 0.5) * c)) for i in range(k)))
    L.append(f"POINT_DATA {nx * ny * nz}")
    flat = array.transpose(2, 1, 0, 3).reshape(-1, dim)
    if dim == 3:
        for ci, cn in enumerate("xyz"):
            L += [f"SCALARS {cn}-component double", "LOOKUP_TABLE default"]
            L += [repr(float(v)) for v in flat[:, ci]]
        L.append("VECTORS field double")
        L += [" ".join(repr(float(v)) for v in row) for row in flat]
    else:
        L += ["SCALARS field double", "LOOKUP_TABLE default"]
        L += [repr(float(v)) for v in flat[:, 0]]
    with open(path, "w") as f:
        f.write("\n".join(L) + "\n")


# --------------------------------------------------------------------------------------
# independent VTK consumer
# --------------------------------------------------------------------------------------
def vtk_grid_from_file(path):
    from vtkmodules.vtkIOLegacy import vtkRectilinearGridReader
    from vtkmodules.vtkIOXML import vtkXMLRectilinearGridReader

    with open(path, "rb") as f:
        head = f.read(64)
    if head.lstrip().startswith(b"<"):
        r = vtkXMLRectilinearGridReader()
    else:
        r = vtkRectilinearGridReader()
        r.ReadAllVectorsOn()
        r.ReadAllScalarsOn()
    r.SetFileName(str(path))
    r.Update()
    return r.GetOutput()


def vtk_lookup(grid, points):
    """For each point: (cell id, dict name -> tuple of values) found by VTK's own
    position lookup, without any of the package's index arithmetic."""
    from vtkmodules.util import numpy_support as vns
    from vtkmodules.vtkCommonCore import reference

    cd = grid.GetCellData()
    arrays = {}
    for i in range(cd.GetNumberOfArrays()):
        a = cd.GetArray(i)
        v = vns.vtk_to_numpy(a)
        arrays[cd.GetArrayName(i)] = v.reshape(len(v), -1)
    out = []
    pc = [0.0, 0.0, 0.0]
    w = [0.0] * 8
    sub = reference(0)
    for p in points:
        cid = grid.FindCell([float(x) for x in p], None, 0, 1e-12, sub, pc, w)
        out.append((cid, {k: v[cid] for k, v in arrays.items()} if cid >= 0 else None))
    return out


def vtk_coords(grid):
    from vtkmodules.util import numpy_support as vns

    return [vns.vtk_to_numpy(c).astype("f8") for c in (grid.GetXCoordinates(), grid.GetYCoordinates(), grid.GetZCoordinates())]
