"""SimFS: the simulated store (DESIGN section 4).

A real directory on tmpfs (np.fromfile needs a real file descriptor) plus seams taken by
rebinding module globals of the package's I/O modules:

* ``discretisedfield.io.ovf.open``      -> SimFS.open: write log, torn writes (SimCrash)
* ``discretisedfield.io.pathlib``       -> shim whose Path.open is logged (side-car)
* ``discretisedfield.io.hdf5.datetime`` -> logical clock (the package's only clock read)

All seams are removed again by ``uninstall``; with no SimFS installed the package runs
exactly as shipped.
"""
import builtins
import errno
import datetime as _real_datetime
import io
import os
import pathlib as _real_pathlib
import shutil
import tempfile
import types

from .core import HarnessError, SimCrash

_COUNTER = [0]


class WriteProxy(io.BufferedIOBase):
    """Pass-through around a real binary file: logs (offset, length) of every write and
    can tear the stream after ``crash_after`` bytes."""

    def __init__(self, fs, real, relname, crash_after=None):
        self._how = "crash"
        if isinstance(crash_after, (tuple, list)):
            crash_after, self._how = crash_after
        self._fs = fs
        self._real = real
        self._rel = relname
        self._crash_after = crash_after
        self._pos = 0
        self.mode = "wb"
        self.name = real.name

    def writable(self):
        return True

    def write(self, data):
        data = bytes(data) if not isinstance(data, (bytes, bytearray, memoryview)) else data
        n = len(data)
        if self._crash_after is not None and self._pos + n > self._crash_after:
            keep = max(0, self._crash_after - self._pos)
            self._real.write(bytes(data[:keep]))
            self._real.flush()
            self._fs.log.append(("write", self._rel, self._pos, keep, "TORN"))
            self._pos += keep
            if self._how == "enospc":
                # the disk is full: this and every later write of the stream fails, the
                # process lives on and the bytes that fitted stay in the file
                self._crash_after = self._pos
                raise OSError(errno.ENOSPC, "No space left on device (simulated)", self._rel)
            self._real.close()
            raise SimCrash(f"torn write of {self._rel} after {self._crash_after} bytes")
        self._real.write(data)
        self._fs.log.append(("write", self._rel, self._pos, n))
        self._pos += n
        return n

    def flush(self):
        if not self._real.closed:
            self._real.flush()

    def close(self):
        if not self._real.closed:
            self._real.close()
        super().close()

    def seek(self, *a):
        raise HarnessError("writer seeks: the sequential-write assumption of torn_write is wrong")

    def tell(self):
        return self._pos

    def __enter__(self):
        return self

    def __exit__(self, *exc):
        self.close()
        return False


class SimFS:
    def __init__(self, df):
        self.df = df
        base = "/dev/shm" if os.path.isdir("/dev/shm") and os.access("/dev/shm", os.W_OK) else None
        _COUNTER[0] += 1
        self.root = tempfile.mkdtemp(prefix=f"dsim-{os.getpid()}-{_COUNTER[0]}-", dir=base)
        self.log = []
        self.crash_plan = {}  # relname -> crash_after bytes (one shot)
        self.clock = 0
        self._saved = None
        self.install()

    # ---- paths -------------------------------------------------------------------------
    def path(self, rel):
        return os.path.join(self.root, rel)

    def rel(self, p):
        p = os.fspath(p)
        return os.path.relpath(p, self.root) if p.startswith(self.root) else p

    # ---- seams -------------------------------------------------------------------------
    def open(self, file, mode="r", *a, **k):
        rel = self.rel(file)
        if "w" in mode and "b" in mode and os.fspath(file).startswith(self.root):
            real = builtins.open(file, mode, *a, **k)
            self.log.append(("open-w", rel))
            return WriteProxy(self, real, rel, self.crash_plan.pop(rel, None))
        self.log.append(("open", rel, mode))
        return builtins.open(file, mode, *a, **k)

    def install(self):
        df = self.df
        import discretisedfield.io as dio
        import discretisedfield.io.hdf5 as dh5
        import discretisedfield.io.ovf as dovf

        fs = self

        class SimPath(type(_real_pathlib.Path())):
            def open(self, mode="r", *a, **k):
                fs.log.append(("path-open", fs.rel(self), mode))
                hook = fs.crash_plan.pop("sidecar:" + fs.rel(self), None)
                if hook == "before":
                    raise SimCrash(f"crash before side-car {fs.rel(self)}")
                return super().open(mode, *a, **k)

        shim = types.SimpleNamespace(Path=SimPath, PurePath=_real_pathlib.PurePath)

        class SimDateTime(_real_datetime.datetime):
            @classmethod
            def now(cls, tz=None):
                fs.clock += 1
                return _real_datetime.datetime(2020, 1, 1, tzinfo=tz) + _real_datetime.timedelta(seconds=fs.clock)

        dt_shim = types.SimpleNamespace(datetime=SimDateTime, timezone=_real_datetime.timezone, timedelta=_real_datetime.timedelta)
        self._saved = (dovf.__dict__.get("open", None), dio.pathlib, dh5.datetime)
        dovf.open = self.open
        dio.pathlib = shim
        dh5.datetime = dt_shim

    def uninstall(self):
        if self._saved is None:
            return
        import discretisedfield.io as dio
        import discretisedfield.io.hdf5 as dh5
        import discretisedfield.io.ovf as dovf

        old_open, old_pathlib, old_dt = self._saved
        if old_open is None:
            dovf.__dict__.pop("open", None)
        else:
            dovf.open = old_open
        dio.pathlib = old_pathlib
        dh5.datetime = old_dt
        self._saved = None

    def close(self):
        self.uninstall()
        shutil.rmtree(self.root, ignore_errors=True)

    # ---- store-level operations ----------------------------------------------------------
    def exists(self, rel):
        return os.path.exists(self.path(rel))

    def size(self, rel):
        return os.path.getsize(self.path(rel))

    def read_bytes(self, rel):
        with builtins.open(self.path(rel), "rb") as f:
            return f.read()

    def write_bytes(self, rel, data):
        with builtins.open(self.path(rel), "wb") as f:
            f.write(data)

    def truncate(self, rel, n):
        with builtins.open(self.path(rel), "r+b") as f:
            f.truncate(n)

    def delete(self, rel):
        try:
            os.remove(self.path(rel))
        except FileNotFoundError:
            pass

    def copy(self, a, b):
        shutil.copyfile(self.path(a), self.path(b))

    def writes_of(self, rel, since=0):
        return [e for e in self.log[since:] if e[0] == "write" and e[1] == rel]
