"""Command line: check <Cxx> [--tier quick|thorough] [--replay f] [--runs N] [--seed N]."""
import argparse
import os
import sys
import traceback


def profiles():
    from . import profiles_geom as pg

    table = {}
    for cls in (pg.TransformProfile, pg.RotateProfile):
        table[cls.prop] = cls
    for modname in ("profiles_field", "profiles_sub", "profiles_rot", "profiles_store"):
        try:
            mod = __import__("dsim." + modname, fromlist=["PROFILES"])
        except ModuleNotFoundError as e:
            if modname in str(e):
                continue
            raise
        for cls in mod.PROFILES:
            table[cls.prop] = cls
    return table


def main(argv):
    ap = argparse.ArgumentParser()
    ap.add_argument("prop")
    ap.add_argument("--tier", default=os.environ.get("VERIF_TIER", "quick"))
    ap.add_argument("--replay")
    ap.add_argument("--runs", type=int)
    ap.add_argument("--seed", type=int, default=int(os.environ.get("VERIF_SEED", "0") or 0))
    ap.add_argument("--workers", type=int)
    ap.add_argument("--digests", type=int)
    ap.add_argument("--one", type=int, help="run a single run index verbosely")
    ap.add_argument("--minimise", help="minimise a replay file with every candidate in a forked pristine child")
    a = ap.parse_args(argv)
    from . import core

    try:
        core.setup_sut()
        table = profiles()
        if a.prop not in table:
            print(f"HARNESS-ERROR: no profile for {a.prop}")
            return 2
        prof = table[a.prop]()
        if a.minimise:
            return core.minimise_isolated(prof, a.minimise)
        if a.replay:
            return core.replay_file(prof, a.replay)
        if a.one is not None:
            prof.deep = a.tier == "thorough"
            r = core.generate_run(prof, a.seed, a.one)
            print("config:", r.config)
            for o, oc in zip(r.ops, r.outcomes):
                print(" ", oc, o)
            if r.violation:
                print("VIOLATION", r.violation.oracle, r.violation.preds, r.violation.message)
            print(dict(r.stats.c))
            return 1 if r.violation else 0
        if a.digests:
            return core.run_check(prof, a.tier if a.tier in ("quick", "thorough") else "quick", a.seed, runs=a.digests, workers=a.workers or 1, digests_only=True)
        tier = a.tier if a.tier in ("quick", "thorough") else "quick"
        return core.run_check(prof, tier, a.seed, runs=a.runs, workers=a.workers)
    except Exception:
        print("HARNESS-ERROR:\n" + traceback.format_exc())
        return 2
