"""heapsim profile `subregions` (C14)."""
from fractions import Fraction as Fr

from . import ops_sub  # noqa: F401
from .gen import Geo, draw_mesh_spec, draw_rotate, draw_scale, draw_translate
from .profiles_geom import HeapProfile

NAMES = ["a", "b", "c", "r1", "top"]


def aligned_box(rng, mm):
    lo, hi = [], []
    for k in range(mm.region.ndim):
        a = rng.randint(0, mm.n[k] - 1)
        b = rng.randint(a + 1, mm.n[k])
        if rng.random() < 0.15:
            a, b = 0, mm.n[k]
        lo.append(a)
        hi.append(b)
    return lo, hi


def box_floats(mm, lo, hi, dlo=None, dhi=None):
    p1 = [float(mm.region.pmin[k] + (lo[k] + (dlo[k] if dlo else 0)) * mm.cell[k]) for k in range(mm.region.ndim)]
    p2 = [float(mm.region.pmin[k] + (hi[k] + (dhi[k] if dhi else 0)) * mm.cell[k]) for k in range(mm.region.ndim)]
    return p1, p2


def draw_attach(rng, s, mm):
    k = rng.choice([0, 1, 1, 2, 3])
    subs = []
    for name in rng.sample(NAMES, k):
        lo, hi = aligned_box(rng, mm)
        p1, p2 = box_floats(mm, lo, hi)
        if rng.random() < 0.3:
            p1, p2 = p2, p1
        subs.append([name, p1, p2])
    o = {"op": "S.attach", "on": s, "subs": subs, "share": rng.random() < 0.25}
    if subs and rng.random() < 0.3:
        # the caller keeps the Region objects it attached and moves them in place afterwards
        o["poke"] = [float((mm.region.pmax[k] - mm.region.pmin[k]) * rng.choice([3, -2, 1])) for k in range(mm.region.ndim)]
    return o


def draw_attach_bad(rng, s, mm):
    nd = mm.region.ndim
    kind = rng.choice(["misaligned", "misaligned", "fractional", "sticking out", "non-dict", "non-string key", "not a region"])
    lo, hi = aligned_box(rng, mm)
    zero = [Fr(0)] * nd
    o = {"op": "S.attach_bad", "on": s, "why": kind, "fault": "rejected_args"}
    good = []
    if rng.random() < 0.5:
        l2, h2 = aligned_box(rng, mm)
        good = [["ok", *box_floats(mm, l2, h2)]]
    if kind == "misaligned":
        ks = [k for k in range(nd) if mm.n[k] >= 2]
        if not ks:
            kind = o["why"] = "sticking out"
        else:
            k = rng.choice(ks)
            if hi[k] == mm.n[k]:
                hi[k] -= 1
                lo[k] = min(lo[k], hi[k] - 1)
            sh = list(zero)
            sh[k] = rng.choice([Fr(1, 2), Fr(1, 4), Fr(3, 4)])
            p1, p2 = box_floats(mm, lo, hi, sh, sh)
            o["subs"] = good + [["bad", p1, p2]]
            return o
    if kind == "fractional":
        k = rng.randrange(nd)
        if hi[k] == mm.n[k]:
            hi[k] -= 1
            lo[k] = min(lo[k], max(0, hi[k] - 1))
        if hi[k] <= lo[k]:
            lo[k], hi[k] = 0, 0
        sh = list(zero)
        sh[k] = Fr(1, 2)
        p1, p2 = box_floats(mm, lo, hi, None, sh)
        o["subs"] = good + [["bad", p1, p2]]
        return o
    if kind == "sticking out":
        k = rng.randrange(nd)
        sh = list(zero)
        sh[k] = Fr(rng.choice([1, 2]))
        if rng.random() < 0.5:
            hi[k] = mm.n[k]
            p1, p2 = box_floats(mm, lo, hi, None, sh)
        else:
            lo[k] = 0
            p1, p2 = box_floats(mm, lo, hi, [-x for x in sh], None)
        o["subs"] = good + [["bad", p1, p2]]
        return o
    p1, p2 = box_floats(mm, lo, hi)
    if kind == "non-dict":
        o["raw"] = None
        o["aslist"] = [["x", p1, p2]]
        if rng.random() < 0.3:
            o.pop("aslist")
            o["raw"] = rng.choice(["abc", 3])
        return o
    if kind == "non-string key":
        o["subs"] = [["x", p1, p2]]
        o["keytype"] = "int"
        return o
    o["raw"] = {"dict": {"x": rng.choice([{"tuple": p1}, "abc", 1.0])}}
    return o


class SubregionsProfile(HeapProfile):
    prop = "C14"
    name = "subregions"
    invariants = True
    required_probes = ("reject_then_ok", "selection_ends_on_subregion_face", "extracted_mesh", "persist_json", "persist_hdf5", "aligned_true", "aligned_false", "refused_sidecar_load")
    rule = (
        "one case = one seeded history (3-30 steps) on meshes with subregions: attachment of aligned boxes and of FAULTY "
        "candidates (misaligned by a fraction of a cell, fractional size, sticking out, wrong type/key), translate/scale/rotate90 "
        "in place and copying, plane and range selections (bounds a quarter cell inside the first/last selected cell, blocks "
        "ending on subregion faces), extraction mesh[name] followed by transformations of the extracted mesh, save/restart/load "
        "through the JSON side-car and HDF5, and is_aligned between pool meshes; distinct = distinct sequence of (op kind, "
        "in-place?, fault kind, outcome); non-trivial = at least 2 steps and at least one history/fault/storage oracle evaluation"
    )

    def _draw_config(self, rng):
        return {
            "ndim": rng.choice([1, 2, 2, 3, 3, 4]),
            "family": rng.choice(["dyadic", "nm", "nm"]),
            "steps": rng.randint(3, 30),
            "pool": rng.randint(3, 9),
            "p_inplace": rng.choice([0.0, 0.3, 0.6]),
            "p_reject": rng.choice([0.0, 0.1, 0.25]),
            "max_cells": rng.choice([12, 60, 300]),
            "p_persist": rng.choice([0.0, 0.05, 0.1]),
        }

    def gen_op(self, rng, st):
        cfg = st.cfg
        geo = st.extra.setdefault("geo", Geo(cfg["family"]))
        out = st.next_slot
        if len(st.h) >= cfg["pool"]:
            return {"op": "drop", "on": min(st.h)}
        meshes = st.slots("M")
        if not meshes or rng.random() < 0.06:
            spec = draw_mesh_spec(rng, geo, cfg["ndim"], cfg["max_cells"], 3)
            return dict(spec, op="Mesh.new", out=out)
        s = rng.choice(meshes)
        mm = st.h[s].box.v
        nd = mm.region.ndim
        if rng.random() < cfg["p_reject"]:
            if rng.random() < 0.25:
                return {"op": "S.load_bad", "on": s, "ax": rng.randrange(nd), "good_names": rng.random() < 0.5, "fault": "foreign_sidecar"}
            return draw_attach_bad(rng, s, mm)
        if rng.random() < cfg["p_persist"]:
            return {"op": "S.persist", "on": s, "how": rng.choice(["json", "hdf5"]), "restart": rng.random() < 0.4, "out": out}
        r = rng.random()
        inplace = rng.random() < cfg["p_inplace"]
        if r < 0.05 and len(meshes) > 1:
            # a mesh on the same lattice receives the other's subregion dictionary
            return {"op": "S.attach_from", "on": s, "src": rng.choice([m for m in meshes if m != s])}
        if r < 0.08:
            # a twin on the same geometry (copying translate by zero), target of attach_from
            return {"op": "translate", "on": s, "v": [0.0] * nd, "inplace": False, "out": out}
        if r < 0.18:
            return draw_attach(rng, s, mm)
        if r < 0.27:
            return draw_translate(rng, geo, s, mm, inplace, out)
        if r < 0.38:
            return draw_scale(rng, geo, s, mm, inplace, out)
        if r < 0.5 and nd >= 2:
            return draw_rotate(rng, geo, s, mm, inplace, out)
        if r < 0.72:
            t = rng.choice(["plane", "range", "range"]) if nd >= 2 else "range"
            o = {"op": "S.sel", "on": s, "t": t, "d": rng.randrange(nd), "i": rng.randrange(6), "out": out}
            if t == "plane":
                o["off"] = rng.choice([0, 1, -1])
                o["default"] = rng.random() < 0.15
                if rng.random() < 0.25:
                    o["zero"] = rng.choice(["float", "int", "neg"])
            else:
                o["w"] = rng.randrange(6)
                o["swap"] = rng.random() < 0.2
            return o
        if r < 0.84:
            return {"op": "S.getitem", "on": s, "i": rng.randrange(5), "out": out}
        if rng.random() < 0.3:
            return {"op": "S.aligned_far", "on": s, "ax": rng.randrange(nd), "e": rng.choice([4, 5, 5, 6])}
        return {"op": "S.aligned", "a": s, "b": rng.choice(meshes)}


PROFILES = [SubregionsProfile]
