"""storesim profiles: `ovf` (C09), `hdf5` (C10), `vtk` (C16). DESIGN 6.5, 7."""
import math

from .core import Profile, load_known
from .gen import Geo, draw_bc, draw_n, draw_subs
from .profiles_geom import REAL
from .store import StoreState, _sidecar

STUBS = [
    "interposed open() of the OVF writer/reader (write log, torn writes)",
    "interposed pathlib.Path.open for the subregion side-car",
    "clock shim for the HDF5 creation time stamp",
    "foreign OVF 1.0/2.0, legacy-HDF5 and legacy-VTK writers (in-process peers)",
    "independent OVF 2.0 parser, h5py view, VTK FindCell consumer (in-process peers)",
]

VTK_VDIMS = {
    2: [["in-plane-component", "out-component"]],
    3: [["a-component", "b-component", "c"], ["x-component", "y-component", "z-component"]],
    4: [["a", "a-component", "b", "c"]],
}
SAFE_VDIMS = {
    2: [None, ["a", "b"], ["mx", "my"], ["m_x", "m_y"], ["c1", "c2"]],
    3: [None, ["a", "b", "c"], ["mx", "my", "mz"], ["m_x", "m_y", "m_z"], ["c1", "c2", "c3"], ["z", "x", "y"], ["a_b", "a_c", "b_1"]],
    4: [None, ["a", "b", "c", "d"], ["v_0", "v_1", "v_2", "v_3"]],
    5: [None, ["a", "b", "c", "d", "e"]],
}
UNITS = [None, None, "A/m", "T", "J/m3", "rad", "V:s", "1", "%", "1/m"]
SPECIALS8 = [0.0, -0.0, 5e-324, 1.7976931348623157e308, -1.7976931348623157e308, 2.2250738585072014e-308, 1.0, -1.0]
SPECIALS4 = [0.0, -0.0, 1e-45, 3.4028234663852886e38, -3.4028234663852886e38, 1.1754943508222875e-38, 1.0]


def draw_store_mesh(rng, geo, ndim, max_cells, max_subs, same_units, dims_any=True, intcorners_p=0.0, tol_any=False, bc_any=True):
    n = draw_n(rng, ndim, max_cells)
    intc = rng.random() < intcorners_p
    if intc:
        cells = [rng.choice([0.5, 1.0, 2.0, 1.0]) for _ in range(ndim)]
        n = [k if (k * c) == int(k * c) else k * 2 for k, c in zip(n, cells)]
        while math.prod(n) > max_cells:
            i = n.index(max(n))
            n[i] = 2 if cells[i] == 0.5 else 1
        pmin = [float(rng.randint(-20, 20)) for _ in range(ndim)]
    else:
        spans = [geo.span(rng, k) for k in n]
        pmin, cells = [a for a, _ in spans], [(b - a) / k for (a, b), k in zip(spans, n)]
    pmax = [a + k * c for a, k, c in zip(pmin, n, cells)] if intc else [b for _, b in spans]
    p1, p2 = list(pmin), list(pmax)
    for i in range(ndim):
        if rng.random() < 0.25:
            p1[i], p2[i] = p2[i], p1[i]
    from .gen import DIM_SETS, UNIT_POOL

    dims = rng.choice(DIM_SETS[ndim]) if dims_any else None
    r = rng.random()
    if r < 0.4:
        units = None
    elif same_units or r < 0.7:
        units = [rng.choice(["nm", "m", "um"])] * ndim
    else:
        units = [rng.choice(UNIT_POOL) for _ in range(ndim)]
    spec = {"p1": p1, "p2": p2, "dims": dims, "units": units, "n": n}
    spec["bc"] = draw_bc(rng, dims, ndim) if bc_any else ""
    if tol_any:
        spec["tol"] = rng.choice([1e-12, 1e-12, 1e-9, 1e-6])
    spec["subs"] = draw_subs(rng, spec, n, rng.choice([0, 0, 1, 2, 3][: max_subs + 2]) if max_subs else 0)
    if intc:
        spec["intcorners"] = True
        allint = all(float(x).is_integer() for _, a, b in spec["subs"] for x in a + b)
        spec["intsubs"] = bool(allint and rng.random() < 0.5)
    return spec


class StoreProfile(Profile):
    engine = "storesim"
    real_components = REAL
    stub_components = STUBS
    state_measure = "final store: per path (format, representation, damage class, writes<=3, has subregions, foreign)"
    fmt = None
    assumptions = [
        "the store is a real tmpfs directory; a torn write leaves exactly the first c bytes (writers are sequential; the proxy fails the run if a writer seeks)",
        "HDF5 and VTK bytes are produced by C libraries behind file names: only create/finish events and the finished file are controlled",
        "a clean batch is evidence over the sampled histories and fault points, not a proof",
    ]

    def __init__(self):
        self.known = load_known(self.prop)
        self.df = None

    def tier_runs(self, tier):
        return {"quick": 3000, "thorough": 100000}[tier]

    def new_state(self, config, stats):
        if self.df is None:
            from .core import setup_sut

            self.df = setup_sut()
        return StoreState(self.df, config, stats, self.prop)

    def simplify(self, o):
        out = []
        if o["op"] == "mkfield":
            m = o["mesh"]
            if m.get("subs"):
                out.append(dict(o, mesh=dict(m, subs=[])))
                if len(m["subs"]) > 1:
                    out.append(dict(o, mesh=dict(m, subs=m["subs"][:1])))
            if m.get("bc"):
                out.append(dict(o, mesh=dict(m, bc="")))
            if m.get("units") is not None:
                out.append(dict(o, mesh=dict(m, units=None)))
            if m.get("dims") is not None:
                out.append(dict(o, mesh=dict(m, dims=None)))
            if m.get("tol") not in (None, 1e-12):
                out.append(dict(o, mesh=dict(m, tol=1e-12)))
            if o.get("pre"):
                out.append(dict(o, pre=None))
                if len(o["pre"]) > 1:
                    out.append(dict(o, pre=o["pre"][:1]))
            if o.get("valid"):
                out.append(dict(o, valid=None))
            if o.get("unit"):
                out.append(dict(o, unit=None))
            if o.get("vdims"):
                out.append(dict(o, vdims=None))
            if o.get("dtype"):
                out.append(dict(o, dtype=None))
            if o["value"].get("kind") != "idx":
                out.append(dict(o, value={"kind": "idx"}))
            if o["nvdim"] > 1:
                out.append(dict(o, nvdim=1, vdims=None))
            if any(k > 1 for k in m["n"]):
                # halve the mesh (keeps cell size): only valid without subregions
                if not m.get("subs") and not o.get("pre"):
                    n2 = [max(1, k // 2) for k in m["n"]]
                    pmin = [min(a, b) for a, b in zip(m["p1"], m["p2"])]
                    pmax = [max(a, b) for a, b in zip(m["p1"], m["p2"])]
                    p2 = [a + (b - a) * k2 / k for a, b, k, k2 in zip(pmin, pmax, m["n"], n2)]
                    if not m.get("intcorners"):
                        out.append(dict(o, mesh=dict(m, p1=pmin, p2=p2, n=n2)))
        if o["op"] == "write":
            if (o.get("opts") or {}).get("extend_scalar"):
                out.append(dict(o, opts={k: v for k, v in o["opts"].items() if k != "extend_scalar"}))
            if o.get("fault"):
                out.append({k: v for k, v in o.items() if k != "fault"})
        return out

    def replace_seq(self, rng, st, cp):
        """read B - another program copies A over B - read B: whatever the first read left behind in
        the process must not show in the second."""
        seq = [{"op": "read", "path": cp["to"]}] if rng.random() < 0.7 else []
        seq += [cp]
        if rng.random() < 0.8:
            seq.append({"op": "read", "path": cp["to"]})
        st.pending = seq[1:]
        return seq[0]

    # ---- shared generators ---------------------------------------------------------
    PUNCT_VDIMS = {2: [["m-x", "m-y"], ["x.1", "x.2"], ["a:b", "c"]], 3: [["m-x", "m-y", "m-z"], ["a.b", "a+c", "d"], ["x'", "y'", "z'"]], 4: [["k-1", "k-2", "k-3", "k-4"]]}

    def draw_field(self, rng, st, out, ndim, max_cells, max_subs, same_units, reps, **kw):
        cfg = st.cfg
        geo = Geo(cfg["family"])
        mesh = draw_store_mesh(rng, geo, ndim, max_cells, max_subs, same_units, **kw)
        nvdim = rng.choice(cfg["nvdims"])
        vd = rng.choice(SAFE_VDIMS[nvdim]) if nvdim > 1 else None
        if nvdim in self.PUNCT_VDIMS and rng.random() < 0.12:
            vd = rng.choice(self.PUNCT_VDIMS[nvdim])  # "any labels without spaces": punctuation is allowed in a label
        if nvdim == 1 and self.fmt in ("hdf5", "vtk") and rng.random() < 0.25:
            vd = rng.choice([["T"], ["m_z"], ["rho"], ["None"], ["x"]])  # a one-component field may carry a label too
        o = {"op": "mkfield", "out": out, "mesh": mesh, "nvdim": nvdim, "vdims": vd, "unit": rng.choice(UNITS)}
        if self.fmt == "hdf5" and rng.random() < 0.06:
            o["unit"] = ""  # explicitly dimensionless: HDF5 keeps the complete state, also an empty unit string
        if nvdim > 1 and rng.random() < 0.3:
            # a permuted or partial component-to-axis mapping, keys written in any order; resolved against
            # the final labels when the field is built (profiles may still replace the labels)
            targets = list(range(ndim)) + [-1] * max(0, nvdim - ndim)
            rng.shuffle(targets)
            order = list(range(nvdim))
            rng.shuffle(order)
            o["mapping"] = {"perm": targets[:nvdim], "order": order}
        return o

    def values_for(self, rng, rep):
        r = rng.random()
        if r < 0.06:
            return {"kind": "zeros", "seed": rng.randrange(2**31)}  # nothing but +0.0 and -0.0
        if r < 0.45:
            return {"kind": "idx", "step": rng.choice([1.0, 0.5, -3.0, 1e-3]), "offset": rng.choice([0.0, -11.0])}
        if rep == "bin4":
            return {"kind": "wide", "seed": rng.randrange(2**31), "emax": 37, "specials": rng.sample(SPECIALS4, 3)}
        return {"kind": "wide", "seed": rng.randrange(2**31), "emax": 300, "specials": rng.sample(SPECIALS8, 3)}


class OvfProfile(StoreProfile):
    prop = "C09"
    name = "ovf"
    level = "fault_enumeration"
    fmt = "ovf"
    required_probes = ("cut_in_data", "cut_in_check", "cut_in_header", "cut_in_tail", "multi_chunk_write", "path_reuse", "stale_sidecar_candidate", "foreign_ovf", "sweep_done", "recovery_read", "rejected_write_over_existing_with_subregions", "damaged_foreign_file", "disk_full_write")
    rule = (
        "one case = one seeded store history (3-30 ops) of OVF writers (bin8/bin4/txt, extend_scalar, side-car on/off) and readers, "
        "foreign OVF 1.0/2.0 writers, an independent OVF 2.0 parser, and faults (torn write at byte c, lost tail, damaged check "
        "value, stale/lost side-car, path reuse, restart), ending with a fault-free recovery phase; ~5% of the runs also sweep "
        "EVERY truncation offset and EVERY single-bit flip of the check value of one small binary file (counted under "
        "faults_injected); distinct = distinct sequence of (op kind, fault kind, outcome); non-trivial = at least 2 steps and at "
        "least one storage/fault oracle evaluation"
    )

    def _draw_config(self, rng):
        return {
            "family": rng.choice(["dyadic", "nm", "nm"]),
            "steps": rng.randint(3, 30),
            "chunk": rng.choice([1, 3, 7, 64, 100000, 100000]),
            "npaths": rng.randint(1, 4),
            "nfields": rng.randint(1, 3),
            "reps": sorted(rng.sample(["bin8", "bin4", "txt"], rng.randint(1, 3))),
            "nvdims": rng.choice([[1], [3], [1, 3], [1, 2, 3, 4], [2, 5], [3]]),
            "faults": sorted(rng.sample(["torn", "flip", "truncate", "lose_sidecar", "restart"], rng.randint(0, 5))),
            "max_subs": rng.choice([0, 1, 3]),
            "large": rng.random() < 0.02,
            "sweep": rng.random() < 0.05,
            "foreign": rng.random() < 0.4,
            "p_extend": rng.choice([0.0, 0.3]),
        }

    def gen_op(self, rng, st):
        cfg = st.cfg
        out = st.next_slot
        if getattr(st, "pending", None):
            return st.pending.pop(0)
        # paths share stems: p0.omf / p0.ovf / p0.ohf are three different files
        names = [f"p{i // 3}.{ext}" for i, ext in zip(range(cfg["npaths"]), ["omf", "ovf", "ohf", "omf"])]
        if not [s for s, (_, f) in st.f.items() if f.mesh.region.ndim == 3 and len(set(f.mesh.region.units)) == 1] or (len(st.f) < cfg["nfields"] and rng.random() < 0.3):
            big = cfg["large"] and not st.f
            o = self.draw_field(rng, st, out, 3, 216, cfg["max_subs"], True, cfg["reps"], bc_any=True)
            if big:
                o["mesh"] = dict(o["mesh"], n=[40, 30, 30], subs=[])
                pmin = [min(a, b) for a, b in zip(o["mesh"]["p1"], o["mesh"]["p2"])]
                o["mesh"]["p1"], o["mesh"]["p2"] = pmin, [a + k * 1.0 * Geo(cfg["family"]).u for a, k in zip(pmin, [40, 30, 30])]
                o["nvdim"], o["vdims"] = 3, None
            o["value"] = self.values_for(rng, rng.choice(cfg["reps"]))
            return o
        r = rng.random()
        paths = sorted(st.paths)
        if st.f and len(st.f) < 4 and rng.random() < 0.05:
            # a twin on the same mesh whose subregions have the same names and one border moved by a cell
            return {"op": "mkvariant", "src": rng.choice(sorted(st.f)), "out": out, "change": rng.choice(["subs_moved", "subs_moved", "subs"]), "which": rng.randrange(3), "ax": rng.randrange(3)}
        if cfg["sweep"] and not st.extra_done("sweep") and rng.random() < 0.3:
            small = [s for s, (_, f) in st.f.items() if math.prod(f.mesh.n) <= 40]
            if small:
                st.mark_done("sweep")
                return {"op": "sweep", "src": rng.choice(small), "rep": rng.choice(["bin8", "bin4"]), "opts": {"extend_scalar": True} if rng.random() < 0.2 else {}, "fault": "sweep"}
        odd = [s for s, (_, f) in st.f.items() if f.mesh.region.ndim != 3 or len(set(f.mesh.region.units)) != 1]
        if paths and r < 0.07:
            if not odd and len(st.f) < 4:
                ndim = rng.choice([2, 3, 3])
                o = self.draw_field(rng, st, out, ndim, 60, cfg["max_subs"], ndim != 3, cfg["reps"])
                if ndim == 3:
                    o["mesh"]["units"] = ["nm", "nm", "m"]
                o["value"] = {"kind": "idx"}
                return o
            why = rng.choice(["ndim", "units", "rep"])
            src = rng.choice(odd) if odd and why != "rep" else rng.choice(sorted(st.f))
            withsubs = [p for p in paths if st.paths[p].subs]
            return {"op": "write_rejected", "src": src, "path": rng.choice(withsubs or paths), "fmt": "ovf", "rep": rng.choice(cfg["reps"]), "why": why, "fault": "rejected_write"}
        good = [s for s in sorted(st.f) if s not in odd]
        if (r < 0.38 or not paths) and good:
            src = rng.choice(good)
            rel = rng.choice(names)
            rep = rng.choice(cfg["reps"])
            fsh = st.f[src][1]
            opts = {}
            if rng.random() < cfg["p_extend"] and (fsh.nvdim == 1 or rng.random() < 0.15):
                opts["extend_scalar"] = True
            if rng.random() < 0.15 and not st.fs.exists(_sidecar(rel)):
                opts["save_subregions"] = False
            o = {"op": "write", "src": src, "path": rel, "fmt": "ovf", "rep": rep, "opts": opts}
            if "torn" in cfg["faults"] and rng.random() < 0.25:
                o["fault"] = {"kind": "torn", "where": self.draw_cut(rng)}
                if rng.random() < 0.35:
                    o["fault"]["how"] = "enospc"  # the disk fills up at that byte instead of the process dying
            if rep == "bin4" and fsh.array.size and float(abs(fsh.array).max()) > 3.4e38:
                o["rep"] = "bin8"
            return o
        if paths and rng.random() < 0.04:
            ok = [p for p in paths if st.paths[p].damage is None]
            if ok:
                rel = rng.choice(ok)
                st.pending = [{"op": "mutate_loaded", "src": out, "how": rng.choice(["translate", "scale", "subs"])}, {"op": "read", "path": rel}]
                return {"op": "read", "path": rel, "keep": out}
        if r < 0.62:
            return {"op": "read", "path": rng.choice(paths)}
        if r < 0.72:
            return {"op": "indep_read", "path": rng.choice(paths)}
        if r < 0.80 and cfg["foreign"]:
            return self.draw_foreign(rng, st)
        choices = []
        if "flip" in cfg["faults"]:
            choices.append("flip")
        if "truncate" in cfg["faults"]:
            choices.append("truncate")
        if "lose_sidecar" in cfg["faults"]:
            choices.append("lose_sidecar")
        if "restart" in cfg["faults"]:
            choices.append("restart")
        choices += ["copy", "delete", "newfield"]
        c = rng.choice(choices)
        rel = rng.choice(paths)
        fbin = [p for p in paths if st.paths[p].foreign is not None and st.paths[p].layout is not None and st.paths[p].damage is None]
        if c in ("flip", "truncate") and fbin and rng.random() < 0.5:
            rel = rng.choice(fbin)  # files of the foreign writers are damaged like the package's own
        if c == "flip":
            how = rng.choice([{"kind": "bits", "bits": [rng.randrange(64) for _ in range(rng.choice([1, 1, 2, 8, 64]))]}, {"kind": "nan"}, {"kind": "inf"}, {"kind": "zero"}, {"kind": "other"}, {"kind": "neg"}, {"kind": "swapped"}, {"kind": "swapped"}])
            return {"op": "flip_check", "path": rel, "how": how, "fault": "flip_check"}
        if c == "truncate":
            return {"op": "truncate", "path": rel, "where": self.draw_cut(rng), "fault": "torn_write"}
        if c == "lose_sidecar":
            return {"op": "lose_sidecar", "path": rel, "fault": "lost_sidecar"}
        if c == "restart":
            return {"op": "restart", "fault": "restart"}
        if c == "copy":
            st.ncopy += 1
            others = [p for p in paths if p != rel]
            if others and rng.random() < 0.4:
                return self.replace_seq(rng, st, {"op": "copy", "path": rel, "to": rng.choice(others), "with_sidecar": rng.random() < 0.7, "over": True})
            return {"op": "copy", "path": rel, "to": f"copy{st.ncopy}.omf", "with_sidecar": rng.random() < 0.5}
        if c == "delete":
            return {"op": "delete", "path": rel}
        if len(st.f) >= 3:
            return {"op": "dropfield", "src": min(st.f)}
        o = self.draw_field(rng, st, out, 3, 216, cfg["max_subs"], True, cfg["reps"])
        o["value"] = self.values_for(rng, rng.choice(cfg["reps"]))
        return o

    def draw_cut(self, rng):
        r = rng.random()
        if r < 0.12:
            return {"at": "header", "frac": rng.random()}
        if r < 0.22:
            return {"at": "header_end", "delta": rng.choice([-1, 0, 1])}
        if r < 0.34:
            return {"at": "check", "frac": rng.random()}
        if r < 0.6:
            return {"at": "data", "frac": rng.random()}
        if r < 0.75:
            return {"at": "chunk_edge", "k": rng.randrange(64), "delta": rng.choice([-1, 0, 1])}
        if r < 0.87:
            return {"at": "data_end", "delta": rng.choice([-1, -2, 0, 1])}
        return {"at": "tail", "frac": rng.random()}

    def draw_foreign(self, rng, st):
        geo = Geo(st.cfg["family"])
        n = draw_n(rng, 3, 60)
        cells = [geo.cell(rng) for _ in range(3)]
        pmin = [geo.origin(rng) for _ in range(3)]
        pmax = [a + k * c for a, k, c in zip(pmin, n, cells)]
        version = rng.choice([1, 2, 2])
        rep = rng.choice(["txt", "bin4", "bin8"])
        style = rng.choice(["oommf", "mumax"]) if version == 2 else "oommf"
        nvdim = 3 if version == 1 else rng.choice([1, 3, 3, 2])
        labels, vdims = None, None
        if version == 2 and nvdim > 1:
            base = rng.choice(["Magnetization", "m", "field", "{Total field"])
            comps = "xyz"[:nvdim]
            labels, vdims = [f"{base}_{c}" + ("}" if base.startswith("{") else "") for c in comps], list(comps)
        st.ncopy += 1
        val = {"kind": "idx", "step": rng.choice([1.0, 0.25])} if rng.random() < 0.5 else {"kind": "wide", "seed": rng.randrange(2**31), "emax": 30}
        return {
            "op": "foreign_write", "path": f"foreign{st.ncopy}.{'ovf' if style == 'mumax' else 'omf'}",
            "dialect": {"kind": "ovf", "version": version, "rep": rep, "style": style},
            "mesh": {"p1": pmin, "p2": pmax, "n": n}, "nvdim": nvdim, "value": val, "labels": labels, "vdims": vdims,
            "unit": rng.choice(["A/m", "T"]), "meshunit": rng.choice(["m", "m", "nm"]),
        }


class Hdf5Profile(StoreProfile):
    prop = "C10"
    name = "hdf5"
    fmt = "hdf5"
    required_probes = ("path_reuse", "foreign_hdf5-legacy", "recovery_read", "intcorner_floatsubs", "stale_sidecar_next_to_hdf5", "twin_field", "large_field", "legacy_unsorted_corners", "loaded_mesh_changed_by_caller", "write_failed_midway")
    rule = (
        "one case = one seeded store history (3-20 ops) of HDF5 writes and reads of 1-4-d fields (arbitrary dims/units/tolerance/"
        "bc/subregions, int- or float-typed corners crossed with int- or float-typed subregion corners, labels and unit present or "
        "absent, float/int/complex values, validity masks, optionally after a short in-place transformation history), path reuse, "
        "restart, an h5py view as independent reader and the legacy-layout writer as foreign peer; distinct = distinct sequence of "
        "(op kind, fault kind, outcome); non-trivial = at least 2 steps and at least one storage oracle evaluation"
    )

    def _draw_config(self, rng):
        return {
            "family": rng.choice(["dyadic", "nm", "dyadic"]),
            "steps": rng.randint(3, 20),
            "npaths": rng.randint(1, 3),
            "nfields": rng.randint(1, 3),
            "nvdims": rng.choice([[1], [3], [1, 2, 3, 4], [1, 3]]),
            "max_subs": rng.choice([0, 1, 3]),
            "intcorners_p": rng.choice([0.0, 0.5, 1.0]),
            "p_pre": rng.choice([0.0, 0.4]),
            "faults": sorted(rng.sample(["restart", "truncate"], rng.randint(0, 2))),
            "foreign": rng.random() < 0.3,
            "dtypes": rng.choice([[None], [None, "int", "complex", "float"]]),
            "large": rng.random() < 0.03,
        }

    def gen_op(self, rng, st):
        cfg = st.cfg
        out = st.next_slot
        if getattr(st, "pending", None):
            return st.pending.pop(0)
        names = [f"p{i}.{ext}" for i, ext in zip(range(cfg["npaths"]), ["h5", "hdf5", "h5"])]
        paths = sorted(st.paths)
        if not st.f or (len(st.f) < cfg["nfields"] and rng.random() < 0.35):
            ndim = rng.choice([1, 2, 3, 3, 4])
            o = self.draw_field(rng, st, out, ndim, 200, cfg["max_subs"], False, None, intcorners_p=cfg["intcorners_p"], tol_any=True)
            o["dtype"] = rng.choice(cfg["dtypes"])
            if o["dtype"] == "int" and rng.random() < 0.4:
                o["bigint"] = True
            if cfg.get("large") and not st.f:
                # more than 2**16 values, no round numbers: chunked code paths, if any
                n_big = {1: [70001], 2: [263, 251], 3: [47, 41, 37], 4: [17, 16, 15, 17]}[ndim]
                pmin = [min(a, b) for a, b in zip(o["mesh"]["p1"], o["mesh"]["p2"])]
                u = Geo(cfg["family"]).u
                o["mesh"] = dict(o["mesh"], p1=pmin, p2=[a + k * u for a, k in zip(pmin, n_big)], n=n_big, subs=[])
                o["mesh"].pop("intcorners", None)
                o["mesh"].pop("intsubs", None)
                o["valid"] = None
                st.stats.probe("large_field")
            o["value"] = {"kind": "zeros", "seed": rng.randrange(2**31)} if rng.random() < 0.06 else {"kind": "idx", "step": rng.choice([1.0, 0.5])} if rng.random() < 0.5 else {"kind": "wide", "seed": rng.randrange(2**31), "emax": 300 if o["dtype"] != "int" else 8, "specials": rng.sample(SPECIALS8, 3) if o["dtype"] is None else []}
            o["valid"] = {"kind": "mask", "seed": rng.randrange(2**31), "p": rng.choice([0.2, 0.7])} if rng.random() < 0.6 else None
            if rng.random() < 0.15 and o["nvdim"] > 1:
                o["vdims"] = None
            m = o["mesh"]
            if m.get("intcorners") and m["subs"] and not m.get("intsubs") and any(not float(x).is_integer() for _, a, b in m["subs"] for x in a + b):
                st.stats.probe("intcorner_floatsubs")
            if rng.random() < cfg["p_pre"] and not m.get("intcorners"):
                pre = []
                for _ in range(rng.randint(1, 3)):
                    k = rng.choice(["translate", "scale", "rotate90"])
                    if k == "translate":
                        pre.append({"m": "translate", "v": [Geo(cfg["family"]).vec(rng, 1.0 * Geo(cfg["family"]).u) for _ in range(ndim)]})
                    elif k == "scale":
                        pre.append({"m": "scale", "factor": rng.choice([2, 0.5, -1, -2])})
                    elif ndim >= 2:
                        dims = m["dims"] or (["x", "y", "z"][:ndim] if ndim <= 3 else [f"x{i}" for i in range(ndim)])
                        a, b = rng.sample(list(dims), 2)
                        if not m["bc"] or m["bc"] in ("neumann", "dirichlet"):
                            pre.append({"m": "rotate90", "ax1": a, "ax2": b, "k": rng.choice([1, 2, 3, -1])})
                o["pre"] = pre
            return o
        r = rng.random()
        if st.f and len(st.f) < 4 and rng.random() < 0.08:
            return {"op": "mkvariant", "src": rng.choice(sorted(st.f)), "out": out, "change": rng.choice(["tol", "tol", "corners", "corners", "bc", "subs", "subs_moved", "subs_moved", "unit"]), "tol": rng.choice([1e-6, 1e-9, 1e-3]), "which": rng.randrange(3), "ax": rng.randrange(4)}
        if paths and rng.random() < 0.05:
            # read - the caller changes the mesh it got - read again (the same or another path)
            rel = rng.choice(paths)
            st.pending = [{"op": "mutate_loaded", "src": out, "how": rng.choice(["translate", "scale", "subs", "bc"])}, {"op": "read", "path": rel}] + ([{"op": "read", "path": rng.choice(paths)}] if len(paths) > 1 else [])
            return {"op": "read", "path": rel, "keep": out}
        if st.f and rng.random() < 0.04:
            # a write that fails midway, then an ordinary write to the same name and its read-back
            rel = rng.choice(names)
            src = rng.choice(sorted(st.f))
            st.pending = [{"op": "write", "src": src, "path": rel, "fmt": "hdf5", "rep": None, "opts": {}}, {"op": "read", "path": rel}]
            return {"op": "write_poison", "src": src, "path": rel, "fault": "failed_write"}
        if r < 0.4 or not paths:
            return {"op": "write", "src": rng.choice(sorted(st.f)), "path": rng.choice(names), "fmt": "hdf5", "rep": None, "opts": {}}
        if r < 0.65:
            return {"op": "read", "path": rng.choice(paths)}
        if r < 0.76:
            return {"op": "h5_view", "path": rng.choice(paths)}
        if r < 0.8:
            withsubs = [s for s, (_, f) in st.f.items() if f.mesh.subs]
            if withsubs:
                return {"op": "plant_sidecar", "src": rng.choice(withsubs), "path": rng.choice(paths), "fault": "stale_sidecar"}
            return {"op": "h5_view", "path": rng.choice(paths)}
        if r < 0.86 and cfg["foreign"]:
            geo = Geo(cfg["family"])
            n = draw_n(rng, 3, 60)
            pmin = [geo.origin(rng) for _ in range(3)]
            pmax = [a + k * geo.cell(rng) for a, k in zip(pmin, n)]
            st.ncopy += 1
            return {"op": "foreign_write", "path": f"legacy{st.ncopy}.h5", "dialect": {"kind": "hdf5-legacy"}, "mesh": {"p1": pmin, "p2": pmax, "n": n}, "nvdim": rng.choice([1, 3]), "value": {"kind": "idx"}, "swap": [rng.random() < 0.35 for _ in range(3)]}
        c = rng.choice(cfg["faults"] + ["copy", "delete", "drop"])
        rel = rng.choice(paths)
        if c == "restart":
            return {"op": "restart", "fault": "restart"}
        if c == "truncate":
            return {"op": "truncate", "path": rel, "where": {"at": "file", "frac": rng.random()}, "fault": "truncate_observed"}
        if c == "copy":
            st.ncopy += 1
            others = [p for p in paths if p != rel]
            if others and rng.random() < 0.5:
                return self.replace_seq(rng, st, {"op": "copy", "path": rel, "to": rng.choice(others), "over": True})
            return {"op": "copy", "path": rel, "to": f"copy{st.ncopy}.h5"}
        if c == "delete":
            return {"op": "delete", "path": rel}
        if len(st.f) > 1:
            return {"op": "dropfield", "src": min(st.f)}
        return {"op": "read", "path": rel}


class VtkProfile(StoreProfile):
    prop = "C16"
    name = "vtk"
    fmt = "vtk"
    required_probes = ("path_reuse", "foreign_vtk-legacy", "recovery_read", "stale_sidecar_candidate", "rejected_write_over_existing_with_subregions")
    rule = (
        "one case = one seeded store history (3-20 ops) of VTK writes (bin/txt/xml, side-car on/off) and reads of 3-d fields, an "
        "independent VTK consumer that looks every cell up by position (FindCell) on the in-memory grid and on the written file, "
        "path reuse, stale/lost side-car, restart, and the legacy point-data writer as foreign peer; distinct = distinct sequence "
        "of (op kind, fault kind, outcome); non-trivial = at least 2 steps and at least one storage oracle evaluation"
    )

    def _draw_config(self, rng):
        cfg = {
            "family": rng.choice(["dyadic", "nm", "nm"]),
            "steps": rng.randint(3, 20),
            "npaths": rng.randint(1, 3),
            "nfields": rng.randint(1, 3),
            "reps": sorted(rng.sample(["bin", "txt", "xml", "bin8", "default"], rng.randint(1, 4))),
            "nvdims": rng.choice([[1], [3], [1, 2, 3, 4], [2, 4]]),
            "max_subs": rng.choice([0, 1, 3]),
            "faults": sorted(rng.sample(["lose_sidecar", "restart", "truncate"], rng.randint(0, 3))),
            "foreign": rng.random() < 0.3,
            "longcoord": False,
        }
        if rng.random() < 0.05:
            cfg["faroffset"] = True
            cfg["max_subs"] = 0
            return cfg
        if rng.random() < 0.06:
            # generic sixteen-digit corners at unit scale. The recorded finding C16/read.raised/.../txt-long-coordinates
            # (text form + subregions, replayed from findings/C16) is avoided: either no text form or no subregions
            cfg["longcoord"] = True
            cfg["family"] = "dyadic"
            if rng.random() < 0.5:
                cfg["reps"] = [r for r in cfg["reps"] if r != "txt"] or ["bin"]
            else:
                cfg["max_subs"] = 0
        return cfg

    def gen_op(self, rng, st):
        cfg = st.cfg
        out = st.next_slot
        if getattr(st, "pending", None):
            return st.pending.pop(0)
        names = [f"p{i}.vtk" for i in range(cfg["npaths"])]
        paths = sorted(st.paths)
        if not [s for s, (_, f) in st.f.items() if f.mesh.region.ndim == 3] or (len(st.f) < cfg["nfields"] and rng.random() < 0.35):
            o = self.draw_field(rng, st, out, 3, 150, cfg["max_subs"], False, cfg["reps"])
            if cfg.get("faroffset"):
                # a mesh far from the origin compared with its cell (offset/cell of 1e6 .. 1e8, no subregions):
                # "any scale/offset"; the text form still keeps ten digits of every coordinate
                m = o["mesh"]
                n = m["n"]
                cells = [rng.choice([0.0123, 0.0235, 0.05, rng.uniform(0.01, 0.05), rng.uniform(0.01, 0.05)]) for _ in range(3)]
                pmin = [rng.choice([-1, 1]) * rng.choice([123456.789, 234567.89, 314159.27, 1048576.5, 99999.5]) for _ in range(3)]
                m["p1"], m["p2"] = pmin, [a + k * c for a, k, c in zip(pmin, n, cells)]
                m["subs"] = []
                m.pop("intcorners", None)
                m.pop("intsubs", None)
            if cfg.get("longcoord"):
                # corners with all sixteen digits at unit scale (the coordinates of every other run survive
                # the ten digits of the text form): region and subregions shifted by one generic vector
                sh = [rng.uniform(-3.0, 3.0) for _ in range(3)]
                m = o["mesh"]
                m["p1"] = [a + d for a, d in zip(m["p1"], sh)]
                m["p2"] = [a + d for a, d in zip(m["p2"], sh)]
                m["subs"] = [[nm, [a + d for a, d in zip(lo, sh)], [a + d for a, d in zip(hi, sh)]] for nm, lo, hi in m["subs"]]
                m.pop("intcorners", None)
                m.pop("intsubs", None)
            o["value"] = {"kind": "idx", "step": rng.choice([1.0, 0.5, -2.0])} if rng.random() < 0.6 else {"kind": "wide", "seed": rng.randrange(2**31), "emax": 100, "specials": []}
            o["valid"] = {"kind": "mask", "seed": rng.randrange(2**31), "p": rng.choice([0.2, 0.7])} if rng.random() < 0.7 else None
            o["unit"] = None  # not promised by C16
            if o["nvdim"] in VTK_VDIMS and rng.random() < 0.15:
                o["vdims"] = rng.choice(VTK_VDIMS[o["nvdim"]])
            return o
        r = rng.random()
        if st.f and len(st.f) < 4 and rng.random() < 0.05:
            return {"op": "mkvariant", "src": rng.choice(sorted(st.f)), "out": out, "change": rng.choice(["subs_moved", "subs_moved", "subs"]), "which": rng.randrange(3), "ax": rng.randrange(3)}
        odd = [s for s, (_, f) in st.f.items() if f.mesh.region.ndim != 3]
        if paths and r < 0.07:
            if not odd and len(st.f) < 4:
                o = self.draw_field(rng, st, out, rng.choice([1, 2, 2]), 60, cfg["max_subs"], False, cfg["reps"])
                o["value"], o["unit"] = {"kind": "idx"}, None
                return o
            why = rng.choice(["ndim", "ndim", "rep"])
            src = rng.choice(odd) if odd and why == "ndim" else rng.choice(sorted(st.f))
            withsubs = [p for p in paths if st.paths[p].subs]
            return {"op": "write_rejected", "src": src, "path": rng.choice(withsubs or paths), "fmt": "vtk", "rep": rng.choice(cfg["reps"]), "why": why, "fault": "rejected_write"}
        good = [s for s in sorted(st.f) if s not in odd]
        if (r < 0.35 or not paths) and good:
            rel = rng.choice(names)
            opts = {}
            if rng.random() < 0.15 and not st.fs.exists(_sidecar(rel)):
                opts["save_subregions"] = False
            return {"op": "write", "src": rng.choice(good), "path": rel, "fmt": "vtk", "rep": rng.choice(cfg["reps"]), "opts": opts}
        if paths and rng.random() < 0.04:
            ok = [p for p in paths if st.paths[p].damage is None]
            if ok:
                rel = rng.choice(ok)
                st.pending = [{"op": "mutate_loaded", "src": out, "how": rng.choice(["translate", "scale", "subs"])}, {"op": "read", "path": rel}]
                return {"op": "read", "path": rel, "keep": out}
        if r < 0.55:
            return {"op": "read", "path": rng.choice(paths)}
        if r < 0.68:
            return {"op": "vtk_consume", "path": rng.choice(paths)}
        if r < 0.8:
            return {"op": "vtk_consume", "src": rng.choice(sorted(st.f))}
        if r < 0.86 and cfg["foreign"]:
            geo = Geo(cfg["family"])
            n = draw_n(rng, 3, 60)
            pmin = [geo.origin(rng) for _ in range(3)]
            pmax = [a + k * geo.cell(rng) for a, k in zip(pmin, n)]
            st.ncopy += 1
            return {"op": "foreign_write", "path": f"legacy{st.ncopy}.vtk", "dialect": {"kind": "vtk-legacy"}, "mesh": {"p1": pmin, "p2": pmax, "n": n}, "nvdim": rng.choice([1, 3]), "value": {"kind": "idx", "step": 0.5}}
        c = rng.choice(cfg["faults"] + ["copy", "delete", "drop"])
        rel = rng.choice(paths)
        if c == "restart":
            return {"op": "restart", "fault": "restart"}
        if c == "lose_sidecar":
            return {"op": "lose_sidecar", "path": rel, "fault": "lost_sidecar"}
        if c == "truncate":
            return {"op": "truncate", "path": rel, "where": {"at": "file", "frac": rng.random()}, "fault": "truncate_observed"}
        if c == "copy":
            st.ncopy += 1
            others = [p for p in paths if p != rel]
            if others and rng.random() < 0.4:
                return self.replace_seq(rng, st, {"op": "copy", "path": rel, "to": rng.choice(others), "with_sidecar": rng.random() < 0.7, "over": True})
            return {"op": "copy", "path": rel, "to": f"copy{st.ncopy}.vtk", "with_sidecar": rng.random() < 0.5}
        if c == "delete":
            return {"op": "delete", "path": rel}
        if len(st.f) > 1:
            return {"op": "dropfield", "src": min(st.f)}
        return {"op": "read", "path": rel}


PROFILES = [OvfProfile, Hdf5Profile, VtkProfile]
