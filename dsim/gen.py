"""Generators shared by the heapsim profiles: geometry families, argument catalogues,
rejected-argument catalogue (DESIGN 5.5, 5.6, Appendix A)."""
import math

from .geom import MeshM, RegionM

DIM_SETS = {
    1: [None, ["x"], ["a"], ["z"]],
    2: [None, ["x", "y"], ["a", "b"], ["y", "x"], ["z", "x"], ["p", "q"]],
    3: [None, ["x", "y", "z"], ["a", "b", "c"], ["z", "x", "y"], ["y", "z", "x"], ["u", "v", "w"]],
    4: [None, ["x", "y", "z", "t"], ["a", "b", "c", "d"], ["t", "z", "y", "x"]],
}
UNIT_SETS = [None, None, "same-nm", "mixed"]
UNIT_POOL = ["m", "nm", "s", "um", "rad", "T"]


class Geo:
    """One geometry family for a run."""

    def __init__(self, family):
        self.family = family
        self.u = 1.0 if family == "dyadic" else 1e-9

    def cell(self, rng):
        if self.family == "dyadic":
            return rng.choice([1, 1, 2, 3, 4, 5, 6]) * 2.0 ** -rng.choice([0, 0, 1, 2, 3])
        return rng.choice([0.5, 1, 1, 2, 2.5, 3, 5, 0.3, 1.7]) * 1e-9

    def origin(self, rng):
        if self.family == "dyadic":
            return rng.randint(-40, 40) * 2.0 ** -rng.choice([0, 0, 0, 1, 2, 3])
        return rng.randint(-400, 400) * rng.choice([1e-9, 0.5e-9, 0.1e-9, 0.37e-9])

    def span(self, rng, k):
        """Corners of an edge of k cells. In the nm family the upper corner is sometimes the float
        nearest to the DECIMAL sum (3e-9 as a user types it), which is not always the float sum
        pmin + k*cell the other half of the cases uses."""
        c, a = self.cell(rng), self.origin(rng)
        if self.family != "dyadic" and rng.random() < 0.4:
            from decimal import Decimal

            return a, float(Decimal(repr(a)) + k * Decimal(repr(c)))
        return a, a + k * c

    def vec(self, rng, cell):
        if self.family == "dyadic":
            return rng.randint(-16, 16) * 2.0 ** -rng.choice([0, 0, 1, 2])
        return rng.randint(-50, 50) * cell * rng.choice([1, 1, 0.5, 0.25, 0.3])

    def sane(self, m):
        """Keep the run inside the band where the library's absolute tolerances are far
        from both rounding drift and the cell size (DESIGN 5.5, S2)."""
        reg = m.region if isinstance(m, MeshM) else m
        edges = [float(e) for e in reg.edges]
        if isinstance(m, MeshM):
            cells = [float(c) for c in m.cell]
        else:
            cells = edges
        if min(cells) < self.u * 2.0**-8 or max(edges) > self.u * 2.0**10:
            return False
        # the library's alignment test has an ABSOLUTE tolerance of 1e-12: coordinates
        # stay below 1024 units so that one rounding of cell = edges/n (n = 3, 5, 6),
        # amplified by the number of cells to the origin, stays an order below it
        return reg.maxabs() <= 1e3 * min(cells) * 8 and reg.maxabs() <= self.u * 1024


def draw_dims_units(rng, ndim, allow_mixed_units=True):
    dims = rng.choice(DIM_SETS[ndim])
    mode = rng.choice(UNIT_SETS)
    if mode is None:
        units = None
    elif mode == "same-nm":
        units = [rng.choice(["nm", "m", "um"])] * ndim
    else:
        units = [rng.choice(UNIT_POOL) for _ in range(ndim)] if allow_mixed_units else None
    return dims, units


def draw_n(rng, ndim, max_cells, lo=1, hi=6):
    while True:
        n = [rng.randint(lo, hi) for _ in range(ndim)]
        if math.prod(n) <= max_cells:
            return n


def draw_region_spec(rng, geo, ndim, n=None, allow_mixed_units=True):
    n = n or draw_n(rng, ndim, 300)
    spans = [geo.span(rng, k) for k in n]
    pmin, pmax = [a for a, _ in spans], [b for _, b in spans]
    p1, p2 = list(pmin), list(pmax)
    for i in range(ndim):
        if rng.random() < 0.3:
            p1[i], p2[i] = p2[i], p1[i]
    dims, units = draw_dims_units(rng, ndim, allow_mixed_units)
    spec = {"p1": p1, "p2": p2, "dims": dims, "units": units}
    if all(float(x).is_integer() for x in p1 + p2) and rng.random() < 0.5:
        spec["intcorners"] = True  # integer-typed corner arrays (the library keeps the dtype it is given)
    return spec, n


def draw_subs(rng, spec, n, count, names=("a", "b", "c", "r1")):
    """Cell-aligned boxes (disjoint, touching, overlapping, equal to the region)."""
    ndim = len(n)
    pmin = [min(a, b) for a, b in zip(spec["p1"], spec["p2"])]
    pmax = [max(a, b) for a, b in zip(spec["p1"], spec["p2"])]
    subs = []
    for name in list(names)[:count]:
        lo, hi = [], []
        for i in range(ndim):
            a = rng.randint(0, n[i] - 1)
            b = rng.randint(a + 1, n[i])
            if rng.random() < 0.15:
                a, b = 0, n[i]
            c = (pmax[i] - pmin[i]) / n[i]
            lo.append(pmin[i] + a * c if a else pmin[i])
            hi.append(pmin[i] + b * c if b < n[i] else pmax[i])
        subs.append([name, lo, hi])
    return subs


def draw_bc(rng, dims, ndim):
    r = rng.random()
    if r < 0.55:
        return ""
    if r < 0.65:
        return "neumann"
    if r < 0.75:
        return "dirichlet"
    d = dims or (["x", "y", "z"][:ndim] if ndim <= 3 else [f"x{i}" for i in range(ndim)])
    chars = [c for c in d if len(c) == 1]
    if not chars:
        return ""
    k = rng.randint(1, len(chars))
    return "".join(rng.sample(chars, k))


def draw_intgrid_spec(rng, ndim, max_cells, max_subs):
    """Integer-typed corners with a FRACTIONAL cell (1/2 or 1/4): subregions whose corners are
    integers too (kept as integer arrays by the library) then have cell faces at non-integer
    coordinates in their interior - where a selection can cut them."""
    q = rng.choice([2, 2, 4])
    units = [rng.randint(1, 3) for _ in range(ndim)]
    while math.prod(u * q for u in units) > max(max_cells, q**ndim):
        units[units.index(max(units))] = max(1, max(units) - 1)
        if all(u == 1 for u in units):
            break
    n = [u * q for u in units]
    pmin = [float(rng.randint(-20, 20)) for _ in range(ndim)]
    pmax = [a + u for a, u in zip(pmin, units)]
    dims, un = draw_dims_units(rng, ndim, True)
    spec = {"p1": pmin, "p2": pmax, "dims": dims, "units": un, "intcorners": True, "n": n, "bc": ""}
    subs = []
    for name in ["a", "b", "c"][: rng.choice([1, 1, 2, 3][: max_subs + 1]) if max_subs else 0]:
        lo_, hi_ = [], []
        for i in range(ndim):
            a = rng.randint(0, units[i] - 1)
            b = rng.randint(a + 1, units[i])
            lo_.append(pmin[i] + a)
            hi_.append(pmin[i] + b)
        subs.append([name, lo_, hi_])
    spec["subs"] = subs
    spec["intsubs"] = True
    return spec


def draw_mesh_spec(rng, geo, ndim, max_cells=300, max_subs=3, allow_mixed_units=True, lo=1, hi=6):
    if geo.family == "dyadic" and max_subs and allow_mixed_units and lo == 1 and rng.random() < 0.12:
        return draw_intgrid_spec(rng, ndim, max_cells, max_subs)
    n = draw_n(rng, ndim, max_cells, lo, hi)
    spec, n = draw_region_spec(rng, geo, ndim, n, allow_mixed_units)
    spec["n"] = n
    spec["bc"] = draw_bc(rng, spec["dims"], ndim)
    k = rng.choice([0, 0, 1, 2, 3][: max_subs + 2]) if max_subs else 0
    spec["subs"] = draw_subs(rng, spec, n, k)
    if spec.get("intcorners"):
        spec["intsubs"] = all(float(x).is_integer() for _, a, b in spec["subs"] for x in a + b) and rng.random() < 0.7
    return spec


def draw_twin_spec(rng, mm):
    """A second mesh closely related to mesh model mm - what anything that remembers meshes by an
    incomplete key would confuse with it: (a) the same region and cell counts with OTHER
    subregions / bc, or (b) the same cell counts and edge lengths SHIFTED by whole cells, keeping
    those subregions (same absolute coordinates) that still lie inside."""
    reg = mm.region
    nd = reg.ndim
    pmin, pmax = [float(x) for x in reg.pmin], [float(x) for x in reg.pmax]
    cell = [float(c) for c in mm.cell]
    spec = {"dims": list(reg.dims), "units": list(reg.units), "n": list(mm.n), "bc": ""}
    if rng.random() < 0.5:
        spec["p1"], spec["p2"] = pmin, pmax
        subs = []
        for name in ["a", "b", "c"][: rng.choice([0, 1, 2])]:
            lo = [rng.randint(0, k - 1) for k in mm.n]
            hi = [rng.randint(a + 1, k) for a, k in zip(lo, mm.n)]
            subs.append([name, [p + a * c if a else p for p, a, c in zip(pmin, lo, cell)], [p + b * c if b < k else q for p, q, b, c, k in zip(pmin, pmax, hi, cell, mm.n)]])
        spec["subs"] = subs
        return spec
    ax = rng.randrange(nd)
    k = rng.choice([1, 1, 2, -1])
    sh = [0.0] * nd
    sh[ax] = k * cell[ax]
    p1 = [a + d for a, d in zip(pmin, sh)]
    p2 = [a + d for a, d in zip(pmax, sh)]
    spec["p1"], spec["p2"] = p1, p2
    subs = []
    for name, sm in mm.subs:
        a, b = [float(x) for x in sm.pmin], [float(x) for x in sm.pmax]
        if all(x >= lo - 1e-9 * c and y <= hi + 1e-9 * c for x, y, lo, hi, c in zip(a, b, p1, p2, cell)):
            subs.append([name, a, b])
    spec["subs"] = subs
    return spec


def model_of_mesh_spec(spec):
    subs = [(nm, RegionM(a, b)) for nm, a, b in spec.get("subs", [])]
    return MeshM(RegionM(spec["p1"], spec["p2"], spec.get("dims"), spec.get("units")), spec["n"], spec.get("bc", ""), subs)


def dims_of(reg):
    return list(reg.dims)


VDIM_SETS = {
    2: [None, ["x", "y"], ["a", "b"], ["vx", "vy"], ["m1", "m2"]],
    3: [None, ["x", "y", "z"], ["a", "b", "c"], ["mx", "my", "mz"], ["z", "x", "y"]],
    4: [None, ["a", "b", "c", "d"], ["v0", "v1", "v2", "v3"]],
}


def draw_vdims_mapping(rng, nvdim, dims, p_unmapped=0.15, p_scalar_label=0.0):
    """Component labels and a (default / permuted / partial) component-to-axis map."""
    if nvdim == 1:
        if p_scalar_label and rng.random() < p_scalar_label:
            return [rng.choice(["s", "T", "rho"])], None  # a one-component field may carry a label, too
        return None, None
    vd = rng.choice(VDIM_SETS[nvdim])
    names = vd or (["x", "y", "z"][:nvdim] if nvdim <= 3 else [f"v{i}" for i in range(nvdim)])
    r = rng.random()
    if r < 0.3:
        return vd, None  # library default
    # explicit: every component gets a distinct spatial axis or a dummy name
    targets = list(dims)
    rng.shuffle(targets)
    mapping = {}
    for i, v in enumerate(names):
        if i < len(targets) and rng.random() > p_unmapped:
            mapping[v] = targets[i]
        else:
            mapping[v] = f"none{i}"
    # the order in which the caller writes the mapping must not matter
    order = list(mapping)
    rng.shuffle(order)
    return vd, {k: mapping[k] for k in order}


def draw_value_spec(rng, dtype, family="idx"):
    if family == "idx" or rng.random() < 0.6:
        return {"kind": "idx", "step": rng.choice([1.0, 0.5, 2.0, -1.0]), "offset": rng.choice([0.0, -7.0, 100.0])}
    return {"kind": "rint", "seed": rng.randrange(2**31), "lo": -8, "hi": 9, "step": rng.choice([1.0, 0.5, 0.25])}


def draw_field_new(rng, slot_mesh, out, mesh_m, nvdim=None, dtypes=(None, None, None, "float", "int"), p_valid=0.6, unit_p=0.3, p_unmapped=0.15, p_scalar_label=0.0):
    nvdim = nvdim or rng.choice([1, 1, 2, 3, 3, 4])
    dt = rng.choice(list(dtypes))
    vd, mp = draw_vdims_mapping(rng, nvdim, mesh_m.region.dims, p_unmapped, p_scalar_label)
    o = {
        "op": "Field.new",
        "on": slot_mesh,
        "out": out,
        "nvdim": nvdim,
        "value": draw_value_spec(rng, dt),
        "valid": ({"kind": "mask", "seed": rng.randrange(2**31), "p": rng.choice([0.3, 0.6, 0.9])} if rng.random() < 0.88 else rng.choice([{"kind": "mask", "seed": 1, "p": 0.0}, {"kind": "mask", "seed": 1, "p": 1.1}, {"kind": "mask", "seed": rng.randrange(2**31), "p": 0.5, "special": "single"}])) if rng.random() < p_valid else None,
        "vdims": vd,
        "mapping": mp,
        "unit": rng.choice(["A/m", "T", "J"]) if rng.random() < unit_p else None,
        "dtype": dt,
    }
    if dt == "complex":
        o["value"] = dict(o["value"], dtype="c16", seed=rng.randrange(2**31))
    return o


# --------------------------------------------------------------------------------------
# transformation arguments
# --------------------------------------------------------------------------------------
FACTORS = [0.25, 0.5, 0.5, 2, 2, 3, 4, -1, -1, -0.5, -2, -3, 1]


def draw_ref(rng, geo, reg, far_mult=(16, 64, 256)):
    r = rng.random()
    if r < 0.45:
        return None
    c = [float(x) for x in reg.center]
    e = [float(x) for x in reg.edges]
    if r < 0.75:
        return [ci + ei * rng.choice([-0.5, -0.25, 0, 0.25, 0.5, 1]) for ci, ei in zip(c, e)]
    return [ci + ei * rng.choice([-1, 1]) * rng.choice(far_mult) for ci, ei in zip(c, e)]


def draw_translate(rng, geo, h_slot, m, inplace, out):
    reg = m.region if isinstance(m, MeshM) else m
    cells = [float(c) for c in (m.cell if isinstance(m, MeshM) else reg.edges)]
    for _ in range(6):
        v = [geo.vec(rng, c) for c in cells]
        if geo.sane(m.translate(v)):
            break
    else:
        v = [0.0] * reg.ndim
    o = {"op": "translate", "on": h_slot, "v": v, "inplace": inplace, "out": out}
    r = rng.random()
    if reg.ndim == 1 and r < 0.3:
        o["varg"] = v[0]
    elif r < 0.15:
        o["varg"] = {"tuple": v}
    elif r < 0.3:
        o["varg"] = {"ndarray": v}
    return o


def draw_scale(rng, geo, h_slot, m, inplace, out):
    reg = m.region if isinstance(m, MeshM) else m
    for _ in range(8):
        if rng.random() < 0.5:
            f = rng.choice(FACTORS)
        else:
            f = [rng.choice(FACTORS) for _ in range(reg.ndim)]
        ref = draw_ref(rng, geo, reg)
        if geo.sane(m.scale(f, ref)):
            break
    else:
        f, ref = 1, None
    o = {"op": "scale", "on": h_slot, "factor": f, "ref": ref, "inplace": inplace, "out": out}
    _own_ref(rng, geo, o, m, lambda r: m.scale(f, r))
    if rng.random() < 0.15:
        o["positional"] = True
    if isinstance(f, list):
        r = rng.random()
        if r < 0.2:
            o["farg"] = {"tuple": f}
        elif r < 0.4:
            o["farg"] = {"ndarray": f}
    return o


def draw_rotate(rng, geo, h_slot, m, inplace, out, kmax=9):
    reg = m.region if isinstance(m, MeshM) else m
    if reg.ndim < 2:
        return None
    ax1, ax2 = rng.sample(list(reg.dims), 2)
    ia, ib = reg.dims.index(ax1), reg.dims.index(ax2)
    k = rng.choice([1, 1, -1, 2, 3, -2, -3, 0, 4, 5, -5, rng.randint(-kmax, kmax)])
    for _ in range(6):
        ref = draw_ref(rng, geo, reg, far_mult=(4, 16, 64))
        if geo.sane(m.rotate90(ia, ib, k, ref)):
            break
    else:
        ref = None
    o = {"op": "rotate90", "on": h_slot, "ax1": ax1, "ax2": ax2, "k": k, "ref": ref, "inplace": inplace, "out": out}
    if rng.random() < 0.1:
        o["knp"] = rng.choice(["int64", "int32"])  # "all integer k": a numpy integer is one
    _own_ref(rng, geo, o, m, lambda r: m.rotate90(ia, ib, k, r))
    if rng.random() < 0.15:
        o["positional"] = True
    return o


def _own_ref(rng, geo, o, m, apply):
    """Sometimes the caller passes one of the object's OWN corner arrays as reference point
    (mesh.region.pmin, a subregion's pmax): the very array object the in-place form is about to
    change. The map is defined by the value the array has at the time of the call."""
    if rng.random() >= 0.12:
        return
    reg = m.region if isinstance(m, MeshM) else m
    choices = [("pmin", reg.pmin), ("pmax", reg.pmax)]
    if isinstance(m, MeshM):
        for i, (_, sub) in enumerate(m.subs):
            choices += [(f"sub:{i}:pmin", sub.pmin), (f"sub:{i}:pmax", sub.pmax)]
    name, val = rng.choice(choices)
    if geo.sane(apply([float(x) for x in val])):
        o["ref"] = None
        o["ref_own"] = name


def draw_reject(rng, h_slot, kind, reg, methods, inplace, field_unmapped_axes=None):
    """One malformed / degenerate call (Appendix A.1, column 'rejected variants')."""
    nd = reg.ndim
    dims = list(reg.dims)
    scale = float(max(reg.edges))
    method = rng.choice(methods)
    ok_v = [1.0] * nd
    cat = []
    if method == "translate":
        cat = [
            ("wrong length", [[1.0] * (nd + 1)], {}),
            ("str", ["abc"], {}),
            ("None", [None], {}),
            ("dict", [{"dict": {"a": 1.0}}], {}),
            ("str element", [["a"] + ok_v[1:]], {}),
            ("complex element", [[{"complex": [1.0, 1.0]}] + ok_v[1:]], {}),
            ("set", [{"set": [1.0]}], {}),
            ("degenerate by rounding (far translation)", [[1e22 * scale] + [0.0] * (nd - 1)], {}),
            ("non-finite element", [[{"float": "nan"}] + [0.0] * (nd - 1)], {}),
            ("non-finite element", [[0.0] * (nd - 1) + [{"float": "inf"}]], {}),
        ]
    elif method == "scale":
        zero_axis = list(ok_v)
        zero_axis[rng.randrange(nd)] = 0.0
        cat = [
            ("zero factor", [0], {}),
            ("zero factor", [0.0], {}),
            ("zero factor on one axis", [zero_axis], {}),
            ("wrong length", [[2.0] * (nd + 1)], {}),
            ("str", ["abc"], {}),
            ("None", [None], {}),
            ("complex element", [[{"complex": [1.0, 1.0]}] + ok_v[1:]], {}),
            ("complex", [{"complex": [2.0, 1.0]}], {}),
            ("str element", [["a"] + ok_v[1:]], {}),
            ("reference wrong length", [2.0], {"reference_point": [0.0] * (nd + 1)}),
            ("reference str", [2.0], {"reference_point": "abc"}),
            ("reference dict", [2.0], {"reference_point": {"dict": {"a": 1.0}}}),
            ("degenerate by rounding (far reference)", [2.0], {"reference_point": [1e22 * scale] * nd}),
            ("non-finite factor", [{"float": "nan"}], {}),
            ("non-finite factor", [{"float": "inf"}], {}),
            ("non-finite factor", [[{"float": "nan"}] + ok_v[1:]], {}),
            ("non-finite reference", [2.0], {"reference_point": [{"float": "nan"}] + [0.0] * (nd - 1)}),
        ]
    elif method == "rotate90":
        if nd < 2:
            return None
        a, b = rng.sample(dims, 2)
        cat = [
            ("same axes", [a, a], {}),
            ("unknown axis", [a, "nope"], {}),
            ("unknown axis", ["nope", b], {}),
            ("float k", [a, b], {"k": 1.5}),
            ("str k", [a, b], {"k": "1"}),
            ("reference wrong length", [a, b], {"reference_point": [0.0] * (nd + 1)}),
            ("reference str", [a, b], {"reference_point": "abc"}),
            ("reference number", [a, b], {"reference_point": 1.0}),
            ("degenerate by rounding (far reference)", [a, b], {"reference_point": [1e22 * scale] * nd}),
            ("non-finite reference", [a, b], {"reference_point": [{"float": "nan"}] * nd}),
            ("complex reference element", [a, b], {"reference_point": [{"complex": [0.0, 1.0]}] * nd}),
            ("str reference element", [a, b], {"reference_point": ["abc"] * nd}),
        ]
        if rng.random() < 0.35:
            # the same malformed call as a whole number of turns: still malformed
            kk = rng.choice([0, 4, -4, 8])
            cat = [(why, args, dict(kw, k=kk)) for why, args, kw in cat if "k" not in kw]
        if field_unmapped_axes:
            a, b = field_unmapped_axes
            why, args, kwargs = "vector field lacks mapping", [a, b], {"k": rng.choice([1, 2, -1, 3])}
            return {"op": "reject", "on": h_slot, "method": method, "args": args, "kwargs": kwargs, "why": why, "inplace": inplace, "need": "field_unmapped", "ndim": nd, "fault": "rejected_args"}
    why, args, kwargs = rng.choice(cat)
    return {"op": "reject", "on": h_slot, "method": method, "args": args, "kwargs": kwargs, "why": why, "inplace": inplace, "ndim": nd, "fault": "rejected_args"}
