"""heapsim profile `rotator` (C18)."""
import math

from . import ops_rot  # noqa: F401
from .gen import Geo, draw_field_new, draw_mesh_spec
from .profiles_geom import HeapProfile


def rand_quat(rng):
    while True:
        q = [rng.gauss(0, 1) for _ in range(4)]
        n = math.sqrt(sum(x * x for x in q))
        if n > 0.1:
            return [x / n for x in q]


def draw_rotation(rng, lattice=False, small=False):
    if small:
        # a fraction of a degree about a coordinate axis (repeated, such steps add up; +a then -(a - small) leaves small)
        seq = rng.choice("xyz")
        return "from_euler", {"seq": seq if rng.random() < 0.5 else seq.upper(), "angles": rng.choice([0.4, 0.25, -0.3, 0.45]), "degrees": True}
    if lattice:
        # quarter and half turns about coordinate axes: the box maps onto itself, so
        # successive results land on the same mesh
        seq = rng.choice("xyz")
        if rng.random() < 0.5:
            seq = seq.upper()
        return "from_euler", {"seq": seq, "angles": rng.choice([90.0, 180.0, -90.0, 180.0, 270.0]), "degrees": True}
    m = rng.choice(["from_quat", "from_matrix", "from_rotvec", "from_euler", "from_euler", "align_vector"])
    if m in ("from_quat", "from_matrix"):
        q = rand_quat(rng)
        if m == "from_quat" and rng.random() < 0.3:
            q = [x * 3.0 for x in q]  # non-normalised quaternions are normalised
        return m, {"q": q}
    if m == "from_rotvec":
        ang = rng.uniform(0.05, 3.0)
        ax = rand_quat(rng)[:3]
        n = math.sqrt(sum(x * x for x in ax)) or 1.0
        return m, {"v": [x / n * ang for x in ax]}
    if m == "from_euler":
        k = rng.choice([1, 2, 3, 3])
        if k == 3 and rng.random() < 0.5:
            seq = rng.choice(["xyz", "zyx", "zxz", "xzy", "yxz", "zyz"])
        else:
            seq = "".join(rng.sample("xyz", k))
        if rng.random() < 0.5:
            seq = seq.upper()
        deg = rng.random() < 0.5
        lim = 170.0 if deg else 2.9
        angles = [rng.uniform(-lim, lim) for _ in range(k)]
        if k >= 2:
            angles[1] = rng.uniform(0.2, 1.3) * (57.29577951308232 if deg else 1.0)  # away from gimbal lock
        return m, {"seq": seq, "angles": angles if k > 1 else angles[0], "degrees": deg}
    while True:
        a = rand_quat(rng)[:3]
        b = rand_quat(rng)[:3]
        na, nb = math.sqrt(sum(x * x for x in a)), math.sqrt(sum(x * x for x in b))
        cos = sum(x * y for x, y in zip(a, b)) / (na * nb)
        if na > 0.2 and nb > 0.2 and abs(cos) < 0.95:
            # the lengths of the two vectors carry no meaning
            sa, sb = rng.choice([1.0, 1.0, 1e-5, 1e5, 1e-9]), rng.choice([1.0, 1.0, 1e-5, 1e5, 1e-9])
            return m, {"initial": [x * sa for x in a], "final": [x * sb for x in b]}


class RotatorProfile(HeapProfile):
    prop = "C18"
    name = "rotator"
    invariants = False
    predict = ("mesh", "array", "valid", "vdims", "mapping", "unit")
    required_probes = ("non_commuting_pair", "clear", "rotate_after_clear", "cmp90", "interior_cells", "outside_cells", "kept_result", "refused_rotation", "rotate_after_refused")
    rule = (
        "one case = one seeded history (3-16 steps) on FieldRotator handles over analytic fields (uniform vector / linear scalar) "
        "on 3-d meshes: rotate with every method (quaternion, matrix, rotation vector, intrinsic/extrinsic Euler angles, vector "
        "alignment), default or explicit n, interleaved with clear_rotation, permuted component-to-axis maps, constructor refusals, "
        "and for cubic cells a quarter turn compared with Field.rotate90 on random content; distinct = distinct sequence of "
        "(op kind, outcome); non-trivial = at least 2 steps and at least one history oracle evaluation (accumulated rotation, "
        "composition order, clear)"
    )

    def tier_runs(self, tier):
        return {"quick": 4000, "thorough": 100000}[tier]

    def _draw_config(self, rng):
        return {
            "family": rng.choice(["dyadic", "nm"]),
            "steps": rng.randint(3, 16),
            "pool": rng.randint(3, 6),
            "cubic": rng.random() < 0.4,
            "p_clear": rng.choice([0.0, 0.15, 0.3]),
            "p_refuse": rng.choice([0.0, 0.1]),
            "lattice": rng.random() < 0.3,
            "p_bad": rng.choice([0.0, 0.1, 0.2]),
            "small": rng.random() < 0.12,
            "bign": rng.random() < 0.09,
        }

    def gen_op(self, rng, st):
        cfg = st.cfg
        geo = st.extra.setdefault("geo", Geo(cfg["family"]))
        out = st.next_slot
        if len(st.h) >= cfg["pool"]:
            return {"op": "drop", "on": min(st.h)}
        fields, rots = st.slots("F"), st.slots("Q")
        if rng.random() < cfg["p_refuse"]:
            # fields the rotator must refuse: 2 components, 2-d mesh, incomplete mapping
            r = rng.random()
            if r < 0.4 and st.slots("M"):
                ms = rng.choice(st.slots("M"))
                o = draw_field_new(rng, ms, out, st.h[ms].box.v, nvdim=rng.choice([2, 3, 4]), p_unmapped=0.6, dtypes=(None,))
                return o
            if r < 0.7:
                spec = draw_mesh_spec(rng, geo, rng.choice([2, 3]), 60, 0)
                return dict(spec, op="Mesh.new", out=out)
        if not fields or (not rots and rng.random() < 0.2) or rng.random() < 0.08:
            n = [rng.randint(2, 6) for _ in range(3)]
            u = geo.u
            if cfg["cubic"]:
                c = rng.choice([1.0, 0.5, 2.0, 2.5]) * u
                cells = [c, c, c]
            else:
                cells = [rng.choice([1.0, 0.5, 2.0, 3.0, 2.5]) * u for _ in range(3)]
            pmin = [rng.randint(-20, 20) * u * rng.choice([1, 0.5]) for _ in range(3)]
            mesh = {"p1": pmin, "p2": [a + k * c for a, k, c in zip(pmin, n, cells)], "dims": rng.choice([None, None, ["a", "b", "c"], ["z", "x", "y"]]), "units": None, "n": n, "bc": "", "subs": []}
            dims = mesh["dims"] or ["x", "y", "z"]
            t = rng.choice(["uniform", "uniform", "linear", "linear", "random3", "random1"] if cfg["cubic"] else ["uniform", "linear"])
            if t == "uniform":
                content = {"t": t, "v": [rng.choice([-2.0, -1.0, 0.5, 1.0, 3.0, 8e5]) for _ in range(3)]}
            elif t == "linear":
                content = {"t": t, "a": [rng.choice([-2.0, 0.0, 1.0, 3.0]) / u for _ in range(3)], "b": rng.choice([0.0, 5.0, -1.0])}
            else:
                content = {"t": t, "seed": rng.randrange(2**31)}
            o = {"op": "Q.field", "out": out, "mesh": mesh, "content": content}
            if t == "linear" and cfg["family"] == "dyadic" and rng.random() < 0.3:
                o["dtype"] = "int"  # integer values at the cell centres (cells and coefficients are integers there) - interpolated in between
                content["a"] = [float(round(x)) * 2 for x in content["a"]]
            if t in ("uniform", "random3") and rng.random() < 0.5:
                vd = rng.choice([["a", "b", "c"], ["mx", "my", "mz"], ["x", "y", "z"]])
                perm = list(dims)
                rng.shuffle(perm)
                mp = dict(zip(vd, perm))
                keys = list(mp)
                rng.shuffle(keys)  # the order in which the caller writes the mapping must not matter
                o["vdims"], o["mapping"] = vd, {k: mp[k] for k in keys}
            return o
        if not rots or rng.random() < 0.12:
            return {"op": "Q.new", "on": rng.choice(fields), "out": out}
        s = rng.choice(rots)
        h = st.h[s]
        rm = h.box.v
        if rm.nrot == 0 and len(set(rm.mm.cell)) == 1 and rm.content and rm.content["t"].startswith("random"):
            return {"op": "Q.cmp90", "on": s, "axis": rng.randrange(3), "k": rng.choice([1, 2, 3, -1])}
        if rng.random() < cfg["p_clear"]:
            return {"op": "Q.clear", "on": s}
        if rm.nrot >= 8:
            return {"op": "Q.clear", "on": s}
        if rm.nrot >= 1 and rng.random() < 0.15:
            return {"op": "Q.keep", "on": s, "out": out}
        if rm.nrot == 0 and rm.content and rm.content["t"] == "uniform" and rng.random() < 0.06:
            return {"op": "Q.rotate", "on": s, "method": "align_vector", "args": {}, "antiparallel": True, "sa": rng.choice([1.0, 2.0, 0.5]), "sb": rng.choice([1.0, 3.0])}
        m, args = draw_rotation(rng, lattice=cfg.get("lattice", False) and rng.random() < 0.7, small=cfg.get("small", False) and rng.random() < 0.7)
        if rng.random() < cfg.get("p_bad", 0.0):
            # a refused request between performed rotations (non-trivial rotation, so that
            # counting it would show in the next result)
            why = rng.choice(["n_zero", "n_zero", "n_negative", "n_length", "method", "n_float", "n_float"])
            n = [rng.randint(2, 6) for _ in range(3)]
            if why == "n_float":
                n = [float(k) for k in n] if rng.random() < 0.5 else [n[0] + 0.5, n[1], n[2]]
            if why == "n_zero":
                n[rng.randrange(3)] = 0
            elif why == "n_negative":
                n[rng.randrange(3)] = -rng.randint(1, 4)
            elif why == "n_length":
                n = n[:2]
            return {"op": "Q.rotate_bad", "on": s, "method": m, "args": args, "n": n, "why": why, "fault": "rejected_args"}
        o = {"op": "Q.rotate", "on": s, "method": m, "args": args}
        if cfg.get("bign") and not st.extra.get("bign_done"):
            # a target mesh above 2**16 cells whose cell count is no multiple of it (block-wise code paths, if any)
            st.extra["bign_done"] = True
            st.stats.probe("big_target_mesh")
            o["n"] = rng.choice([[50, 40, 35], [48, 40, 40], [64, 40, 32]])
            return o
        if rng.random() < 0.25:
            o["n"] = st.extra.setdefault("fixed_n", [rng.randint(2, 8) for _ in range(3)]) if rng.random() < 0.6 else [rng.randint(2, 8) for _ in range(3)]
        return o


PROFILES = [RotatorProfile]
