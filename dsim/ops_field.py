"""heapsim ops on field state: value specifications (C02), norm (C15), algebra (C03)
and validity (C08).  Appendix A.2 of DESIGN.md.

Every op computes the model for all attributes it can; which of them are *compared* is
decided by the profile's ``predict`` set (predict vs adopt, DESIGN 5.3)."""
import math
from fractions import Fraction as Fr

import numpy as np

from .core import HarnessError, Violation, sut
from .geom import MeshM, RegionM, fr, frs
from .heap import Box, FieldM, arrays_equal, default_mapping, default_vdims, expect_ok, first_diff, make_array, op
from .ops_geom import dec


def adopt_mesh(mobj):
    r = mobj.region
    rm = RegionM([float(x) for x in r.pmin], [float(x) for x in r.pmax], tuple(r.dims), tuple(r.units), r.tolerance_factor)
    subs = [(k, RegionM([float(x) for x in s.pmin], [float(x) for x in s.pmax])) for k, s in mobj.subregions.items()]
    return MeshM(rm, [int(i) for i in mobj.n], mobj.bc, subs)


def new_field(st, slot, obj, box, pred, meta=None):
    """Register a result: adopted from the library, predicted attributes overwritten."""
    o = st.extra.get("cur_op") or {}
    meta = dict(meta or {})
    meta.setdefault("from", o.get("op", "?") + (":" + str(o["f"]) if "f" in o else "") + (":" + str(o["how"].get("t")) if isinstance(o.get("how"), dict) else ""))
    meta.setdefault("parents", [o[k] for k in ("on", "a", "b") if isinstance(o.get(k), int)] + [p for p in o.get("parts", []) if isinstance(p, int)])
    fm = FieldM.adopt(obj)
    for k, v in pred.items():
        if k in st.predict or k == "nvdim":
            setattr(fm, k, v)
    return st.add("F", obj, box, fm, meta=meta, slot=slot)


def result_box(st, obj, operand_handle, model_mesh=None):
    """Box for a result field: the operand's Box when the library put the result on the
    operand's own Mesh object (documented sharing), otherwise a fresh one."""
    if obj.mesh is operand_handle.obj.mesh:
        return operand_handle.box
    return Box(model_mesh if (model_mesh is not None and "mesh" in st.predict) else adopt_mesh(obj.mesh))


# --------------------------------------------------------------------------------------
# value specifications
# --------------------------------------------------------------------------------------
class CellFn:
    """A function of position supplied by the simulator: looks the cell up by exact
    geometry, checks that it is called at a cell centre, returns that cell's table value;
    optionally fails (raises / wrong shape / wrong type) at its k-th call."""

    def __init__(self, meshm, table, fault=None, scalar_ok=False):
        self.m = meshm
        self.table = table
        self.fault = fault
        self.calls = 0
        self.bad = []
        self.scalar_ok = scalar_ok
        self.fired = False

    def __call__(self, p):
        self.calls += 1
        if self.fault is not None and self.calls == self.fault["k"]:
            self.fired = True
            how = self.fault["how"]
            if how == "raise":
                raise RuntimeError("simulated failure of the user callable")
            if how == "shape":
                return tuple([1.0] * (self.table.shape[-1] + 1))
            if how == "type":
                return "not a number"
            if how == "none":
                return None
        pl = [p] if isinstance(p, (int, float)) else list(p)
        pf = frs(pl)
        idx = self.m.index_of(pf)
        if idx is None:
            self.bad.append(f"called at {pl}, outside the mesh")
            return tuple(self.table[(0,) * self.m.region.ndim])
        c = self.m.centre_of(idx)
        if any(abs(a - b) * 1000 > ci for a, b, ci in zip(pf, c, self.m.cell)):
            self.bad.append(f"called at {pl}, which is not the centre {[float(x) for x in c]} of cell {idx}")
        v = self.table[idx]
        if self.scalar_ok and len(v) == 1:
            return v[0].item()
        return tuple(x.item() for x in v)


def spec_table(spec, n, nvdim, dtype):
    a = make_array(dict(spec, shape=[*n, nvdim]))
    if dtype == "int":
        a = np.rint(a).astype(np.int64)
    elif dtype == "complex":
        a = a.astype(np.complex128) * (1 + 0.5j)
    elif dtype == "bool":
        a = np.rint(a) % 3 != 0  # handed over as Booleans (C02 states no cast; cf. the int case)
    return a


def eval_spec(st, spec, meshm, nvdim, dtype):
    """Model: the specification evaluated at the model's own cell centres."""
    t = spec["t"]
    n = meshm.n
    npdt = {"int": np.int64, "float": np.float64, "complex": np.complex128, "bool": np.bool_, None: np.float64}[dtype]
    if t == "const":
        v = dec(spec["v"])
        a = np.empty((*n, nvdim), dtype=npdt if dtype else np.result_type(np.float64, np.asarray(v).dtype))
        a[...] = v
        return a
    if t == "array":
        a = spec_table(spec["a"], n, nvdim, dtype)
        return a.astype(npdt) if dtype else a.astype(np.result_type(a.dtype, np.float64))
    if t == "fn":
        return spec_table(spec["a"], n, nvdim, dtype).astype(npdt)
    if t == "dict":
        a = np.zeros((*n, nvdim), dtype=npdt)
        parts = {k: eval_spec(st, v, meshm, nvdim, dtype) for k, v in spec["d"].items()}
        for idx in np.ndindex(*n):
            c = meshm.centre_of(idx)
            for name, sub in meshm.subs:
                if name in parts and sub.contains_point(c):
                    a[idx] = parts[name][idx]
                    break
            else:
                a[idx] = parts["default"][idx]
        return a
    if t == "fnred":
        # a function that REDUCES over the coordinates of the point: 1 + max_k |p_k| / u
        a = np.empty((*n, nvdim), dtype=np.float64)
        for idx in np.ndindex(*n):
            a[idx] = 1.0 + max(abs(float(c)) for c in meshm.centre_of(idx)) / spec["u"]
        return a
    if t == "arrayof":
        return np.array(st.h[spec["src"]].fm.array, copy=True)
    if t == "field":
        src = st.h[spec["src"]]
        sm = src.box.v
        # the value of the source cell, as it is: C02 says nothing about a dtype cast
        a = np.empty((*n, nvdim), dtype=src.fm.array.dtype)
        for idx in np.ndindex(*n):
            j = sm.index_of(meshm.centre_of(idx))
            a[idx] = src.fm.array[j]
        return a
    raise HarnessError(f"spec kind {t}")


def lib_spec(st, spec, meshm, nvdim, dtype, fns):
    """The python object handed to the library for a specification."""
    t = spec["t"]
    if t == "const":
        return dec(spec["v"])
    if t == "array":
        a = spec_table(spec["a"], meshm.n, nvdim, dtype)
        if spec.get("squeeze") and nvdim == 1:
            a = a[..., 0]
        if spec.get("aslist"):
            return a.tolist()
        return a
    if t == "fn":
        f = CellFn(meshm, spec_table(spec["a"], meshm.n, nvdim, dtype), spec.get("fault"), scalar_ok=spec.get("scalar_ok", False))
        fns.append(f)
        return f
    if t == "dict":
        return {k: lib_spec(st, v, meshm, nvdim, dtype, fns) for k, v in spec["d"].items()}
    if t == "fnred":
        u = spec["u"]
        return lambda p: 1.0 + np.max(np.abs(p)) / u  # works for a point and (differently!) for arrays of coordinates
    if t == "field":
        return st.h[spec["src"]].obj
    if t == "arrayof":
        return st.h[spec["src"]].obj.array  # the very ndarray another field hands out
    if t == "raw":
        return dec(spec["v"])
    if t == "object":
        return object()
    raise HarnessError(f"spec kind {t}")


def field_covers(st, spec, meshm, dtype=None):
    """Whether the source field's cells strictly contain all target centres (S2)."""
    if spec["t"] != "field":
        return True
    src = st.h.get(spec["src"])
    if src is None or src.kind != "F":
        return False
    if dtype not in (None, "float") or src.fm.array.dtype.kind != "f":
        return False  # dtype conversion between source and target is not part of C02
    sm = src.box.v
    if sm.region.dims != meshm.region.dims:
        return False
    if not sm.region.contains_region(meshm.region):
        return False
    for idx in np.ndindex(*meshm.n):
        c = meshm.centre_of(idx)
        j = sm.index_of(c)
        if j is None:
            return False
        cj = sm.centre_of(j)
        if any(abs(a - b) > cs * Fr(3, 8) for a, b, cs in zip(c, cj, sm.cell)):
            return False
    return True


def _check_fns(fns, what):
    for f in fns:
        if f.bad:
            raise Violation("spec.point", f"{what}: user function {f.bad[0]} ({len(f.bad)} such calls)", kind="value")


def _scribble(st, val, spec, obj, want, what):
    """The caller reuses the array it passed (e.g. one work buffer refilled for several
    fields): a field set through the constructor or update_field_values keeps the values
    it was given. (Not applied to the bare `array` setter, for which the unchanged
    library stores what it is handed and no property says otherwise.)"""
    if spec["t"] != "array" or not isinstance(val, np.ndarray) or val.size == 0:
        return
    val[...] = val + 1000
    st.stats.probe("caller_reuses_array")
    st.stats.oracle("A")
    got = np.asarray(obj.array)
    if got.shape == want.shape and not arrays_equal(got.astype(want.dtype), want):
        raise Violation("alias.caller_array", f"{what}: the field changed when the caller overwrote the array it had passed as value (shape {val.shape}, dtype {val.dtype})", preds=[what, "shape-n" if val.ndim == got.ndim - 1 else "full"], kind="A")


@op("F.construct")
def op_construct(st, o):
    mh = st.h[o["on"]]
    if mh.kind != "M":
        return "skipped"
    mm = mh.box.v
    nvdim, dtype = o["nvdim"], o.get("dtype")
    spec = o["spec"]
    if spec["t"] == "field" and (not field_covers(st, spec, mm, dtype) or st.h[spec["src"]].fm.nvdim != nvdim):
        return "skipped"
    if spec["t"] == "dict" and any(k != "default" and k not in dict(mm.subs) for k in spec["d"]):
        return "skipped"
    fns = []
    kw = dict(nvdim=nvdim, value=lib_spec(st, spec, mm, nvdim, dtype, fns))
    if dtype:
        kw["dtype"] = {"int": np.int64, "float": np.float64, "complex": np.complex128, "bool": bool}[dtype]
    if o.get("vdims") is not None:
        kw["vdims"] = list(o["vdims"])
    if o.get("unit") is not None:
        kw["unit"] = o["unit"]
    want = eval_spec(st, spec, mm, nvdim, dtype)
    if o.get("norm") is not None and not np.all(np.isfinite(want)):
        o = dict(o, norm=None)  # no norm for NaN cells
    if o.get("norm") is not None:
        kw["norm"] = lib_spec(st, o["norm"], mm, 1, None, fns)
        want = norm_model(want, eval_spec(st, o["norm"], mm, 1, None))
    valid = np.ones(mm.n, dtype=bool)
    if o.get("valid") is not None:
        valid = make_array(dict(o["valid"], shape=list(mm.n)))
        kw["valid"] = valid.copy()
    res = sut(st.df.Field, mh.obj, **kw)
    obj = expect_ok(res, f"Field(mesh, nvdim={nvdim}, value=<{spec['t']}>, dtype={dtype})")
    _check_fns(fns, "Field(...)")
    if o.get("norm") is None:
        _scribble(st, kw["value"], spec, obj, want, "Field(...)")
    st.stats.oracle("value")
    if o.get("norm") is not None and o["norm"]["t"] == "fnred":
        # the norm depends on the float cell centres: compared to 1e-12, then the library's rounding is adopted
        got = np.asarray(obj.array)
        if got.shape != want.shape or not np.all(np.abs(got - want) <= 1e-12 * np.abs(want)):
            raise Violation("norm.length", "Field(..., norm=<function reducing over the point>): lengths differ from the function evaluated at the cell centres", kind="value")
        want = np.array(got, copy=True)
    vdims = o.get("vdims") or default_vdims(nvdim)
    pred = {"array": want, "valid": valid, "vdims": vdims, "mapping": default_mapping(nvdim, vdims, mm.region.dims), "unit": o.get("unit"), "nvdim": nvdim}
    h = new_field(st, o["out"], obj, mh.box, pred, meta={"dtype": dtype})
    if o.get("norm") is not None:
        h.fm.vtol = 0.0
        h.meta["rtol"] = 1e-12
    if spec["t"] == "dict":
        st.stats.probe("dict_spec")
    if spec["t"] == "field":
        st.stats.probe("field_spec")


@op("F.update")
def op_update(st, o):
    h = st.h[o["on"]]
    if h.kind != "F":
        return "skipped"
    mm = h.box.v
    nvdim, dtype = h.fm.nvdim, h.meta.get("dtype")
    spec = o["spec"]
    if spec["t"] == "field" and (not field_covers(st, spec, mm, dtype) or st.h[spec["src"]].fm.nvdim != nvdim or spec["src"] == o["on"]):
        return "skipped"
    if spec["t"] == "dict" and any(k != "default" and k not in dict(mm.subs) for k in spec["d"]):
        return "skipped"
    if spec["t"] == "array" and spec.get("squeeze") and nvdim != 1:
        return "skipped"
    if spec["t"] == "arrayof":
        src = st.h.get(spec["src"])
        if src is None or src.kind != "F" or spec["src"] == o["on"] or src.fm.array.shape != h.fm.array.shape or src.fm.array.dtype.kind != "f" or dtype not in (None, "float"):
            return "skipped"
        st.stats.probe("array_of_other_field")
    if spec["t"] == "const" and nvdim == 1 and np.shape(dec(spec["v"])) == tuple(mm.n):
        return "skipped"  # [v] on a one-cell 1-d mesh is read as a per-cell array: ambiguous, no C02 clause decides
    fns = []
    val = lib_spec(st, spec, mm, nvdim, dtype, fns)
    want = eval_spec(st, spec, mm, nvdim, dtype)
    had_norm = h.meta.pop("norm_set", False)
    if o.get("via") == "array":
        res = sut(setattr, h.obj, "array", val)
    else:
        res = sut(h.obj.update_field_values, val)
    expect_ok(res, f"update of field values with <{spec['t']}> via {o.get('via', 'update_field_values')}")
    _check_fns(fns, "update_field_values")
    if o.get("via") != "array":
        _scribble(st, val, spec, h.obj, want, "update_field_values")
    if "array" in st.predict:
        h.fm.array = want
        h.fm.vtol = 0.0
        h.meta.pop("rtol", None)
    else:
        h.fm.array = np.array(h.obj.array, copy=True)
    if had_norm:
        st.stats.probe("update_after_norm")
        st.stats.oracle("H")
    if st.extra.pop("just_rejected", None) == o["on"]:
        st.stats.probe("reject_then_ok")
    st.stats.oracle("value")
    return "updated"


@op("F.faulty")
def op_faulty(st, o):
    """A faulty value specification: must raise and leave the field unchanged."""
    h = st.h[o["on"]]
    mm = h.box.v
    construct = h.kind == "M"
    nvdim = o.get("nvdim", 1) if construct else h.fm.nvdim
    dtype = None if construct else h.meta.get("dtype")
    spec = o["spec"]
    if not construct and dtype not in (None, "float") and spec["t"] == "fn":
        return "skipped"
    if spec["t"] == "field" and spec.get("wrong_nvdim"):
        src = st.h.get(spec["src"])
        if src is None or src.kind != "F" or src.fm.nvdim == nvdim or src.box.v.region.dims != mm.region.dims:
            return "skipped"
    elif spec["t"] == "field":
        src = st.h.get(spec["src"])
        if src is None or src.kind != "F" or src.fm.nvdim != nvdim or src.box.v.region.contains_region(mm.region, margin=max(mm.cell)) or src.box.v.region.dims != mm.region.dims:
            return "skipped"
    if spec["t"] == "dict":
        # a dict without default is only faulty if some cell is left uncovered
        cover = [s for k, s in mm.subs if k in spec["d"]]
        if not any(not any(s.contains_point(mm.centre_of(idx)) for s in cover) for idx in np.ndindex(*mm.n)):
            return "skipped"
    if spec["t"] == "const" and nvdim == 1 and np.shape(dec(spec["v"])) == tuple(mm.n):
        return "skipped"  # a list of n numbers IS a valid per-cell array of a scalar field on a 1-d mesh
    if spec["t"] == "fn":
        total = math.prod(mm.n)
        spec = dict(spec, fault=dict(spec["fault"], k=1 + (spec["fault"]["k"] - 1) % total))
    fns = []
    try:
        val = lib_spec(st, spec, mm, nvdim, dtype, fns)
    except Exception as e:  # noqa: BLE001
        raise HarnessError(f"faulty spec could not be built: {e!r}") from None
    st.stats.fault("callback_fault" if spec["t"] == "fn" else "rejected_args")
    if construct:
        res = sut(st.df.Field, h.obj, nvdim=nvdim, value=val)
    elif o.get("via") == "array":
        res = sut(setattr, h.obj, "array", val)
    else:
        res = sut(h.obj.update_field_values, val)
    st.stats.oracle("F")
    if not res.raised:
        raise Violation("reject.accepted", f"faulty value specification {o.get('why')} ({_short_spec(spec)}) for nvdim={nvdim} on n={mm.n} was accepted", preds=[o.get("why", ""), "construct" if construct else o.get("via", "update")], kind="F")
    if spec["t"] == "fn" and not fns[0].fired:
        raise HarnessError("callback fault did not fire")
    if spec["t"] == "fn":
        st.stats.probe("callback_fault_mid" if 1 < spec["fault"]["k"] < math.prod(mm.n) else "callback_fault_edge")
    try:
        st.check_heap()
    except Violation as v:
        raise Violation("reject.modified", f"faulty value specification {o.get('why')} raised {type(res.e).__name__} but the field changed: {v.message}", preds=[o.get("why", ""), "construct" if construct else o.get("via", "update")], kind="F") from None
    st.extra["just_rejected"] = o["on"]
    return "rejected"


def _short_spec(spec):
    s = repr(spec)
    return s if len(s) < 200 else s[:200] + "..."


# --------------------------------------------------------------------------------------
# norm (C15)
# --------------------------------------------------------------------------------------
def norm_model(arr, target):
    a = arr.astype(np.result_type(arr.dtype, np.float64))
    L = np.sqrt((np.abs(a) ** 2).sum(axis=-1, keepdims=True))
    out = np.zeros_like(a)
    np.divide(a, L, out=out, where=L != 0)
    return out * target


@op("F.setnorm")
def op_setnorm(st, o):
    h = st.h[o["on"]]
    if h.kind != "F" or h.meta.get("dtype") in ("int", "bool"):
        return "skipped"
    if not np.all(np.isfinite(h.fm.array)):
        return "skipped"  # NaN / inf cells have no length to rescale (outside C15's range)
    mm = h.box.v
    spec = o["spec"]
    if spec["t"] == "field":
        # a scalar field on a covering mesh is a function of position like any other
        src = st.h.get(spec["src"])
        if src is None or src.kind != "F" or spec["src"] == o["on"] or src.fm.nvdim != 1 or not field_covers(st, spec, mm) or np.any(src.fm.array < 0) or not np.all(np.isfinite(src.fm.array)):
            return "skipped"
        st.stats.probe("norm_from_field" + ("_other_mesh" if src.box is not h.box else ""))
    fns = []
    before = h.fm.array
    if spec["t"] == "ownview":
        # the per-cell norm is a view of the field's own live array (one component, or a scalar field's array
        # itself): the lengths asked for are the values that component has when the assignment is made
        c = spec["c"] % h.fm.nvdim
        if before.dtype.kind != "f" or np.any(before[..., c] < 0):
            return "skipped"
        live = h.obj.array
        val = live[..., c] if spec.get("squeeze") else live[..., c:c + 1]
        if not np.shares_memory(val, live):
            return "skipped"
        target = np.array(before[..., c:c + 1], dtype=float, copy=True)
        st.stats.probe("norm_from_view_of_own_array")
    else:
        val = lib_spec(st, spec, mm, 1, None, fns)
        target = eval_spec(st, spec, mm, 1, None)
    want = norm_model(before, target)
    res = sut(setattr, h.obj, "norm", val)
    expect_ok(res, f"norm = <{spec['t']}>")
    _check_fns(fns, "norm setter")
    got = np.asarray(h.obj.array)
    if "array" in st.predict:
        # C15 clause by clause, on the library's result
        Lb = np.sqrt((np.abs(before.astype(complex)) ** 2).sum(axis=-1))
        Lg = np.sqrt((np.abs(got.astype(complex)) ** 2).sum(axis=-1))
        t = np.abs(target[..., 0])
        nz = Lb != 0
        if got.shape != before.shape:
            raise Violation("norm.shape", f"array shape {got.shape} after norm assignment, was {before.shape}", kind="value")
        if np.any(got[~nz] != 0):
            raise Violation("norm.zero_cells", "a zero cell is not zero after the norm was set", kind="value")
        bad = nz & ~(np.abs(Lg - t) <= 1e-12 * t)
        if bad.any():
            idx = tuple(int(i) for i in np.argwhere(bad)[0])
            raise Violation("norm.length", f"cell {idx}: length {Lg[idx]!r} after norm={t[idx]!r} (was {Lb[idx]!r})", kind="value")
        # direction unchanged: got/|got| == before/|before|
        with np.errstate(all="ignore"):
            d0 = before / np.where(nz, Lb, 1)[..., None]
            d1 = got / np.where(Lg != 0, Lg, 1)[..., None]
        bad = nz & (t != 0) & ~(np.abs(d0 - d1).max(axis=-1) <= 1e-12)
        if bad.any():
            idx = tuple(int(i) for i in np.argwhere(bad)[0])
            raise Violation("norm.direction", f"cell {idx}: direction {d1[idx].tolist()} after the norm was set, was {d0[idx].tolist()}", kind="value")
        st.stats.oracle("value", 3)
        h.fm.array = np.array(got, copy=True)  # rounding of the library's own rescaling is adopted (checked above to 1e-12)
    else:
        h.fm.array = np.array(got, copy=True)
    h.meta["norm_set"] = True
    return "norm-set"


@op("F.absarray")
def op_absarray(st, o):
    """field.array = abs(field.array) through the array setter (all components non-negative afterwards)."""
    h = st.h[o["on"]]
    if h.kind != "F" or h.fm.array.dtype.kind != "f" or not np.all(np.isfinite(h.fm.array)):
        return "skipped"
    new = np.abs(h.fm.array)
    res = sut(setattr, h.obj, "array", new.copy())
    expect_ok(res, "field.array = abs(field.array)")
    h.fm.array = new
    return "abs"


@op("F.nudge")
def op_nudge(st, o):
    """All values multiplied by 1 + eps (a few parts per million) through the array setter: the lengths
    are now ALMOST what an earlier norm assignment made them - the next one has to make them exact again."""
    h = st.h[o["on"]]
    if h.kind != "F" or h.fm.array.dtype.kind != "f" or not np.all(np.isfinite(h.fm.array)):
        return "skipped"
    new = h.fm.array * (1.0 + o["eps"])
    res = sut(setattr, h.obj, "array", new.copy())
    expect_ok(res, "field.array = field.array * (1 + eps)")
    h.fm.array = new
    h.fm.vtol = 0.0
    h.meta.pop("rtol", None)
    st.stats.probe("lengths_almost_at_target")
    return "nudged"


@op("F.setnorm_bad")
def op_setnorm_bad(st, o):
    """A norm specification that is refused (wrong type, wrong shape, a user function failing at
    its k-th call). No claimed property says what state the field is left in (the unchanged
    library leaves it normalised to 1), so the state is ADOPTED; what C15 does say is checked by
    the steps that follow: zero cells stay zero, later updates store exactly the new values."""
    h = st.h[o["on"]]
    if h.kind != "F" or h.meta.get("dtype") in ("int", "bool") or not np.all(np.isfinite(h.fm.array)):
        return "skipped"
    mm = h.box.v
    how = o["how"]
    if how == "str":
        val = "abc"
    elif how == "shape":
        val = np.ones([k + 1 for k in mm.n] + [1])
    else:
        total = math.prod(mm.n)
        tab = make_array({"kind": "const", "value": 2.0, "shape": [*mm.n, 1]})
        val = CellFn(mm, tab, {"k": 1 + (o.get("k", 1) - 1) % total, "how": "raise"}, scalar_ok=True)
    res = sut(setattr, h.obj, "norm", val)
    st.stats.fault("callback_fault" if how == "fn" else "rejected_args")
    st.stats.hit("observed/refused_norm:" + ("raised" if res.raised else "accepted"))
    got = np.asarray(h.obj.array)
    if got.shape != h.fm.array.shape:
        raise Violation("norm.shape", f"array shape {got.shape} after a refused norm assignment, was {h.fm.array.shape}", kind="value")
    h.fm.array = np.array(got, copy=True)
    h.fm.vtol = 0.0
    st.stats.probe("refused_norm")
    return "norm-refused" if res.raised else "norm-accepted"


@op("F.getnorm")
def op_getnorm(st, o):
    h = st.h[o["on"]]
    if h.kind != "F":
        return "skipped"
    which = o["what"]
    res = sut(getattr, h.obj, which)
    obj = expect_ok(res, f"field.{which}")
    a = h.fm.array
    L = np.sqrt((np.abs(a.astype(np.result_type(a.dtype, np.float64))) ** 2).sum(axis=-1, keepdims=True))
    box = result_box(st, obj, h, h.box.v)
    if which == "norm":
        pred = {"array": L, "valid": h.fm.valid.copy(), "unit": h.fm.unit, "nvdim": 1, "vdims": None, "mapping": {}}
        nh = new_field(st, o["out"], obj, box, pred)
        nh.meta["rtol"] = 1e-12
        nh.fm.vtol = 0.0
        if "array" in st.predict:
            got = np.asarray(obj.array)
            if got.shape != L.shape or not np.all(np.abs(got - L) <= 1e-12 * L):
                raise Violation("norm.getter", "field.norm is not the Euclidean length per cell", kind="value")
            nh.fm.array = np.array(got, copy=True)
    else:
        pred = {"valid": h.fm.valid.copy(), "nvdim": h.fm.nvdim, "vdims": h.fm.vdims, "mapping": dict(h.fm.mapping)}
        nh = new_field(st, o["out"], obj, box, pred)
        if "array" in st.predict:
            got = np.asarray(obj.array)
            Lg = np.sqrt((np.abs(got) ** 2).sum(axis=-1))
            big = L[..., 0] >= 1e-6
            small = L[..., 0] <= 1e-10
            if np.any(np.abs(Lg[big] - 1) > 1e-12):
                raise Violation("orientation.unit_length", "orientation is not of unit length where the field is non-zero", kind="value")
            if np.any(got[small] != 0):
                raise Violation("orientation.zero", "orientation is not zero where the field is zero", kind="value")
            rec = got * L
            if not np.all(np.abs(rec[big] - a[big]) <= 1e-12 * L[big]):
                raise Violation("orientation.times_norm", "orientation*norm does not reproduce the field", kind="value")
            st.stats.oracle("value", 3)
    st.stats.oracle("value")
    return which


@op("F.rename")
def op_frename(st, o):
    """The caller renames the component labels of ONE field; its mapping is re-keyed,
    every other field (a rotated copy shares nothing with its source) is unaffected."""
    h = st.h[o["on"]]
    if h.kind != "F" or h.fm.nvdim < 2 or not h.fm.vdims or len(o["vdims"]) != h.fm.nvdim:
        return "skipped"
    new = list(o["vdims"])
    res = sut(setattr, h.obj, "vdims", new)
    expect_ok(res, f"field.vdims = {new}")
    old = h.fm.vdims
    h.fm.mapping = {n: h.fm.mapping[k] for n, k in zip(new, old) if k in h.fm.mapping}
    h.fm.vdims = new
    st.stats.probe("rename_labels")
    st.stats.oracle("A")
    return "renamed"


@op("F.poke")
def op_fpoke(st, o):
    """The caller edits values in place through the array the field hands out; every
    later read (norm, orientation, sampling, a new norm) must see the current values."""
    h = st.h[o["on"]]
    if h.kind != "F":
        return "skipped"
    a = h.obj.array
    if not isinstance(a, np.ndarray) or a.size == 0 or not a.flags.writeable or a.dtype.kind != "f":
        return "skipped"
    ncell = math.prod(a.shape[:-1])
    idx = np.unravel_index(o["i"] % ncell, a.shape[:-1])
    v = np.asarray(o["v"], dtype=float)[: a.shape[-1]]
    if len(v) != a.shape[-1]:
        return "skipped"
    if o.get("whole_cell", True):
        a[idx] = v
    else:
        a[idx][0] = v[0]
    h.fm.array = h.fm.array.astype(a.dtype).copy()
    if o.get("whole_cell", True):
        h.fm.array[idx] = v
    else:
        h.fm.array[idx][0] = v[0]
    h.fm.vtol = 0.0
    st.stats.probe("buffer_write")
    st.stats.oracle("H")
    return "poked"


# --------------------------------------------------------------------------------------
# observations (C02)
# --------------------------------------------------------------------------------------
@op("F.call")
def op_call(st, o):
    h = st.h[o["on"]]
    if h.kind != "F" or "array" not in st.predict:
        return "skipped"
    mm = h.box.v
    for p in o["pts"]:
        if len(p) != mm.region.ndim:
            return "skipped"
        idx = mm.index_of(frs(p))
        if idx is None:
            return "skipped"
        c = mm.centre_of(idx)
        if any(abs(a - b) > ci * Fr(3, 8) + Fr(1, 10**9) * ci for a, b, ci in zip(frs(p), c, mm.cell)):
            return "skipped"  # decision margin (S2)
        arg = p[0] if (mm.region.ndim == 1 and o.get("scalar")) else (tuple(p) if o.get("tuple") else list(p))
        res = sut(h.obj, arg)
        got = expect_ok(res, f"field({p})")
        want = h.fm.array[idx]
        st.stats.oracle("value")
        if np.shape(got) != want.shape or not arrays_equal(np.asarray(got), want, h.fm.vtol):
            raise Violation("sample.value", f"field({p}) = {np.asarray(got).tolist()} but the cell {idx} containing the point holds {want.tolist()}", kind="value")
    return "sampled"


@op("F.comp")
def op_comp(st, o):
    h = st.h[o["on"]]
    if h.kind != "F" or not h.fm.vdims or o["i"] >= len(h.fm.vdims):
        return "skipped"
    name = h.fm.vdims[o["i"]]
    res = sut(getattr, h.obj, name)
    obj = expect_ok(res, f"field.{name}")
    mp = {name: h.fm.mapping[name]} if name in h.fm.mapping else {}
    pred = {"array": h.fm.array[..., o["i"] : o["i"] + 1].copy(), "valid": h.fm.valid.copy(), "unit": h.fm.unit, "nvdim": 1}
    nh = new_field(st, o["out"], obj, result_box(st, obj, h, h.box.v), pred)
    nh.fm.vtol = h.fm.vtol
    st.stats.oracle("value")
    return "component"


@op("F.iter")
def op_iter(st, o):
    h = st.h[o["on"]]
    if h.kind != "F" or "array" not in st.predict:
        return "skipped"
    res = sut(lambda: list(h.obj))
    vals = expect_ok(res, "iter(field)")
    mm = h.box.v
    nd = mm.region.ndim
    # mesh order: first dimension runs fastest
    want = np.moveaxis(h.fm.array, list(range(nd)), list(range(nd - 1, -1, -1))).reshape(-1, h.fm.nvdim)
    st.stats.oracle("value")
    got = np.asarray(vals).reshape(len(vals), -1)
    if got.shape != want.shape or not arrays_equal(got, want, h.fm.vtol):
        raise Violation("iter.order", f"iteration yields {len(vals)} values that are not the cells in mesh order (first dimension fastest)", kind="value")
    return "iterated"


@op("F.line")
def op_line(st, o):
    if isinstance(o["n"], list):
        # the same line with several numbers of points (where the points land depends on n)
        out = [_line(st, dict(o, n=k)) for k in o["n"]]
        return "line" if "line" in out else out[0]
    return _line(st, o)


def _line(st, o):
    h = st.h[o["on"]]
    if h.kind != "F" or "array" not in st.predict:
        return "skipped"
    mm = h.box.v
    p1, p2, n = o["p1"], o["p2"], o["n"]
    if len(p1) != mm.region.ndim:
        return "skipped"
    f1, f2 = frs(p1), frs(p2)
    pts = [[a + (b - a) * Fr(i, n - 1) for a, b in zip(f1, f2)] for i in range(n)]
    idxs = []
    for p in pts:
        idx = mm.index_of(p)
        if idx is None:
            return "skipped"
        c = mm.centre_of(idx)
        # a quarter-cell margin from every cell face - except the faces of the REGION itself, where the
        # containing cell is unambiguous (first cell / last cell, both inclusive)
        if any(abs(a - b) > ci * Fr(3, 8) and a != lo and a != hi for a, b, ci, lo, hi in zip(p, c, mm.cell, mm.region.pmin, mm.region.pmax)):
            return "skipped"
        if any(a == lo or a == hi for a, lo, hi in zip(p, mm.region.pmin, mm.region.pmax)):
            st.stats.probe("line_point_on_region_boundary")
        idxs.append(idx)
    a1 = p1[0] if mm.region.ndim == 1 and o.get("scalar") else list(p1)
    a2 = p2[0] if mm.region.ndim == 1 and o.get("scalar") else list(p2)
    res = sut(h.obj.line, p1=a1, p2=a2, n=n)
    line = expect_ok(res, f"field.line(p1={p1}, p2={p2}, n={n}) on a {mm.region.ndim}-d mesh", preds=[f"{mm.region.ndim}d"])
    data = line.data
    st.stats.oracle("value")
    vcols = ["v"] if not h.fm.vdims else [f"v{c}" for c in h.fm.vdims]
    clash = sorted(set(vcols) & set(mm.region.dims))
    if clash and not o.get("finding"):
        return "skipped"  # known finding C02/line.points/F.line/column-clash is replayed from findings/
    if len(data) != n:
        raise Violation("line.count", f"line returned {len(data)} points, requested {n}", kind="value")
    scale = float(max(max(abs(x) for x in f1), max(abs(x) for x in f2), 1e-300))
    dims = list(mm.region.dims)
    got_pts = data[dims].to_numpy(dtype=float)
    want_pts = np.array([[float(x) for x in p] for p in pts])
    if not np.all(np.abs(got_pts - want_pts) <= 1e-12 * scale):
        raise Violation("line.points", f"line points are not {n} equidistant points from p1 to p2 inclusive" + (f" (value column {clash} has the name of a spatial dimension and overwrote it)" if clash else ""), preds=["column-clash"] if clash else [], kind="value")
    r = data["r"].to_numpy(dtype=float)
    want_r = np.array([math.sqrt(float(sum((a - b) ** 2 for a, b in zip(p, f1)))) for p in pts])
    if not np.all(np.abs(r - want_r) <= 1e-9 * max(want_r.max(), 1e-300)):
        raise Violation("line.distance", "line 'r' column is not the distance from p1", kind="value")
    cols = [c for c in data.columns if c not in ["r", *dims]]
    vals = data[cols].to_numpy()
    want = np.array([h.fm.array[i] for i in idxs])
    if vals.shape != want.shape or not arrays_equal(vals.astype(want.dtype), want, h.fm.vtol):
        raise Violation("line.values", "line values are not the values of the cells containing the sample points", kind="value")
    return "line"


# --------------------------------------------------------------------------------------
# algebra (C03) - also the derive ops of the validity profile (C08)
# --------------------------------------------------------------------------------------
UNARY = {"neg": lambda f: -f, "pos": lambda f: +f, "abs": lambda f: abs(f)}
UNARY_NP = {"neg": np.negative, "pos": lambda a: a, "abs": np.abs}
BIN = {
    "add": (lambda a, b: a + b, np.add),
    "sub": (lambda a, b: a - b, np.subtract),
    "mul": (lambda a, b: a * b, np.multiply),
    "truediv": (lambda a, b: a / b, np.divide),
    "pow": (lambda a, b: a**b, np.power),
}
CPLX = {"real": np.real, "imag": np.imag, "conjugate": np.conjugate, "phase": np.angle, "abs": np.abs}
UFUNCS1 = {"sin": np.sin, "exp": np.exp, "square": np.square, "negative": np.negative, "sqrt": np.sqrt, "absolute": np.absolute}
UFUNCS2 = {"add": np.add, "multiply": np.multiply, "subtract": np.subtract, "maximum": np.maximum, "hypot": np.hypot}
INEXACT = {"truediv", "pow", "sin", "exp", "sqrt", "hypot", "phase"}


def _operand(st, spec, n, nvdim_hint):
    """(library object, model array or scalar, validity or None, handle or None)"""
    if isinstance(spec, int) and not isinstance(spec, bool):
        h = st.h.get(spec)
        if h is None or h.kind != "F":
            return None
        return h.obj, h.fm.array, h.fm.valid, h
    if "num" in spec:
        v = dec(spec["num"])
        return v, v, None, None
    if "vec" in spec:
        v = [dec(x) for x in spec["vec"]]
        if spec.get("as") == "tuple":
            return tuple(v), np.asarray(v), None, None
        if spec.get("as") == "ndarray":
            return np.asarray(v), np.asarray(v), None, None
        return list(v), np.asarray(v), None, None
    if "arr" in spec:
        a = make_array(dict(spec["arr"], shape=[*n, spec["nv"]]))
        return a.copy(), a, None, None
    raise HarnessError(f"operand {spec}")


def _finish_result(st, o, obj, ha, arr, valid, inexact, vdims=None, mapping=None, unit="adopt", extra_handles=()):
    if not isinstance(obj, st.df.Field):
        raise Violation("result.type", f"{o['op']} returned {type(obj).__name__}, not a field", kind="value")
    box = result_box(st, obj, ha, ha.box.v)
    if "mesh" in st.predict and obj.mesh is not ha.obj.mesh:
        from .geom import cmp_mesh

        bad = cmp_mesh(obj.mesh, ha.box.v, st.atol(ha.box.v, ha.box.steps), "result.mesh", subs=False, bc=False)
        if bad:
            raise Violation("result.mesh", f"{o['op']} {o.get('f', '')}: result does not live on the operand's mesh: {bad[:3]}", kind="value")
    pred = {"nvdim": arr.shape[-1], "valid": valid}
    if "array" in st.predict:
        got = np.asarray(obj.array)
        if got.shape != arr.shape:
            raise Violation("result.array", f"{o['op']} {o.get('f', '')}: result shape {got.shape}, numpy gives {arr.shape}", preds=[o.get("f", "")], kind="value")
        if inexact:
            ok = np.isclose(got, arr, rtol=1e-12, atol=0, equal_nan=True) | ((got == arr)) | ((got != got) & (arr != arr))
            if arr.dtype.kind == "c":
                ok = ok | ~np.isfinite(arr)  # complex overflow: inf/nan parts combine differently between equivalent formulas
        else:
            ok = (got == arr) | ((got != got) & (arr != arr))
        if not np.all(ok):
            idx = tuple(int(i) for i in np.argwhere(~ok)[0])
            raise Violation("result.array", f"{o['op']} {o.get('f', '')}: result at {idx} is {got[idx]!r}, numpy on the operands gives {arr[idx]!r}", preds=[o.get("f", "")], kind="value")
        pred["array"] = np.array(got, copy=True)
    if vdims is not None:
        pred["vdims"] = vdims
    if mapping is not None:
        pred["mapping"] = mapping
    nh = new_field(st, o["out"], obj, box, pred)
    st.stats.oracle("value")
    if len(st.sharers(box)) > 1:
        st.stats.probe("shared_mesh")
    return nh


@op("A.unary")
def op_unary(st, o):
    h = st.h[o["on"]]
    if h.kind != "F":
        return "skipped"
    res = sut(UNARY[o["f"]], h.obj)
    obj = expect_ok(res, f"{o['f']}(field)")
    if obj is h.obj and "valid" not in st.predict:
        # unary plus hands back the operand itself (see findings/C08); outside the validity
        # profile no second handle is created for the same object
        st.stats.probe("result_is_operand")
        return "pos-returned-operand"
    if obj is h.obj:
        st.stats.probe("result_is_operand")
        if "valid" in st.predict:
            # C08: "a result's validity is its own" - the behavioural check is the
            # mutate-and-look op; an identical object can never satisfy it
            st.extra.setdefault("aliases", []).append((o["on"], o["out"]))
    arr = UNARY_NP[o["f"]](h.fm.array)
    _finish_result(st, o, obj, h, arr, h.fm.valid.copy(), False, vdims=h.fm.vdims, mapping=dict(h.fm.mapping))
    return o["f"]


def _operand_state(*hs):
    """Validity, labels and mapping of the operand fields as the library holds them BEFORE an evaluation."""
    return [(h, np.array(h.obj.valid, copy=True), None if h.obj.vdims is None else list(h.obj.vdims), dict(h.obj.vdim_mapping or {})) for h in hs if h is not None]


def _operands_untouched(st, snap, what):
    """C03: evaluation leaves every operand's validity, labels and mapping unmodified (values and mesh are
    compared by the whole-heap pass after the step)."""
    for h, v, vd, mp in snap:
        now = np.asarray(h.obj.valid)
        if now.shape != v.shape or not np.array_equal(now, v):
            raise Violation("operand.modified", f"{what}: the validity of operand handle {h.slot if hasattr(h, 'slot') else '?'} changed ({int(v.sum())} valid cells before, {int(now.sum())} after)", preds=["validity"], kind="A")
        if (None if h.obj.vdims is None else list(h.obj.vdims)) != vd or dict(h.obj.vdim_mapping or {}) != mp:
            raise Violation("operand.modified", f"{what}: labels/mapping of an operand changed: {vd}/{mp} -> {h.obj.vdims}/{dict(h.obj.vdim_mapping or {})}", preds=["labels"], kind="A")
    st.stats.oracle("A")


@op("A.binary")
def op_binary(st, o):
    ha = st.h[o["a"]]
    if ha.kind != "F":
        return "skipped"
    n = ha.box.v.n
    opd = _operand(st, o["b"], n, ha.fm.nvdim)
    if opd is None:
        return "skipped"
    bobj, barr, bvalid, hb = opd
    if hb is not None:
        if hb.box.v.key()[:2] != ha.box.v.key()[:2] or not (ha.fm.nvdim == hb.fm.nvdim or 1 in (ha.fm.nvdim, hb.fm.nvdim)):
            return "skipped"
        if hb.box is not ha.box:
            st.stats.probe("equal_but_distinct_meshes")
    else:
        shp = np.shape(barr)
        if len(shp) == 1 and not (shp[0] == ha.fm.nvdim or ha.fm.nvdim == 1):
            return "skipped"
        if len(shp) > 1 and shp != ha.fm.array.shape:
            return "skipped"
    libf, npf = BIN[o["f"]]
    if o.get("reflected") and hb is not None:
        return "skipped"
    try:
        with np.errstate(all="ignore"):
            arr = npf(barr, ha.fm.array) if o.get("reflected") else npf(ha.fm.array, barr)
    except (ValueError, TypeError, ZeroDivisionError):
        return "skipped"  # numpy itself refuses this combination (e.g. int ** negative int)
    snap = _operand_state(ha, hb)
    if o.get("reflected"):
        res = sut(lambda: libf(bobj, ha.obj))
    else:
        res = sut(lambda: libf(ha.obj, bobj))
    obj = expect_ok(res, f"field {o['f']} {_short_spec(o['b'])} (reflected={bool(o.get('reflected'))})", preds=[o["f"]])
    _operands_untouched(st, snap, f"field {o['f']} {_short_spec(o['b'])}")
    valid = ha.fm.valid & bvalid if bvalid is not None else ha.fm.valid.copy()
    if hb is not None and o["a"] == o["b"]:
        st.stats.probe("same_operand_twice")
    _finish_result(st, o, obj, ha, np.asarray(arr), valid, o["f"] in INEXACT)
    return o["f"]


@op("A.vecop")
def op_vecop(st, o):
    """dot, cross, angle between a field and a field / constant vector."""
    ha = st.h[o["a"]]
    if ha.kind != "F":
        return "skipped"
    opd = _operand(st, o["b"], ha.box.v.n, ha.fm.nvdim)
    if opd is None:
        return "skipped"
    bobj, barr, bvalid, hb = opd
    f = o["f"]
    if hb is not None and (hb.box.v.key()[:2] != ha.box.v.key()[:2] or hb.fm.nvdim != ha.fm.nvdim):
        return "skipped"
    if hb is None and np.shape(barr) != (ha.fm.nvdim,):
        return "skipped"
    if f == "cross" and ha.fm.nvdim != 3:
        return "skipped"
    cplx = ha.fm.array.dtype.kind == "c" or np.asarray(barr).dtype.kind == "c"
    if cplx and f == "angle":
        return "skipped"
    a = ha.fm.array.astype(complex if cplx else float)
    b = np.broadcast_to(np.asarray(barr, dtype=complex if cplx else float), a.shape)
    if f == "dot":
        call = (lambda: ha.obj @ bobj) if o.get("operator") else (lambda: ha.obj.dot(bobj))
        arr = (a * b).sum(axis=-1, keepdims=True)
        inexact = True  # summation order is numpy's business
    elif f == "cross":
        call = (lambda: ha.obj & bobj) if o.get("operator") else (lambda: ha.obj.cross(bobj))
        arr = np.stack([a[..., 1] * b[..., 2] - a[..., 2] * b[..., 1], a[..., 2] * b[..., 0] - a[..., 0] * b[..., 2], a[..., 0] * b[..., 1] - a[..., 1] * b[..., 0]], axis=-1)
        inexact = False
    else:
        call = lambda: ha.obj.angle(bobj)  # noqa: E731
        with np.errstate(all="ignore"):
            arr = np.arccos((a * b).sum(axis=-1, keepdims=True) / (np.sqrt((a * a).sum(axis=-1, keepdims=True)) * np.sqrt((b * b).sum(axis=-1, keepdims=True))))
        inexact = True
    snap = _operand_state(ha, hb)
    res = sut(call)
    obj = expect_ok(res, f"field.{f}({_short_spec(o['b'])})", preds=[f])
    _operands_untouched(st, snap, f"field.{f}({_short_spec(o['b'])})")
    valid = ha.fm.valid & bvalid if bvalid is not None else ha.fm.valid.copy()
    if f == "dot" and "array" in st.predict:
        got = np.asarray(obj.array)
        mag = (np.abs(a * b)).sum(axis=-1, keepdims=True)
        with np.errstate(all="ignore"):
            # cells where the model's own sum overflows to inf/nan are not judged: how infinities and NaNs of
            # complex products combine differs between einsum and the plain sum of products
            ok = (np.abs(got - arr) <= 1e-12 * mag) | ((got != got) & (arr != arr)) | (got == arr) | ~np.isfinite(arr)
        if got.shape != arr.shape or not ok.all():
            idx = tuple(int(i) for i in np.argwhere(~ok)[0]) if got.shape == arr.shape else None
            raise Violation("result.array", f"dot: result at {idx} differs from the sum of component products", preds=["dot"], kind="value")
        arr = got
    if f == "angle" and "array" in st.predict:
        got = np.asarray(obj.array)
        # arccos is ill-conditioned near 0 and pi (and flips to NaN one ulp beyond):
        # compare the cosines, and do not judge cells that sit on the edge of the domain
        with np.errstate(all="ignore"):
            cosm = (a * b).sum(axis=-1, keepdims=True) / (np.sqrt((a * a).sum(axis=-1, keepdims=True)) * np.sqrt((b * b).sum(axis=-1, keepdims=True)))
            ok = np.isclose(np.cos(got), cosm, rtol=0, atol=1e-9) | (np.abs(cosm) >= 1 - 1e-9) | ((got != got) & (cosm != cosm))
        if got.shape != arr.shape or not ok.all():
            raise Violation("result.array", "angle differs from arccos(a.b/(|a||b|))", preds=["angle"], kind="value")
        arr = got
    _finish_result(st, o, obj, ha, arr, valid, inexact)
    return f


@op("A.lshift")
def op_lshift(st, o):
    hs = [st.h.get(s) for s in o["parts"]]
    if any(h is None or h.kind != "F" for h in hs):
        return "skipped"
    h0 = hs[0]
    if any(h.box.v.key()[:2] != h0.box.v.key()[:2] for h in hs):
        return "skipped"

    def call():
        r = hs[0].obj
        for h in hs[1:]:
            r = r << h.obj
        return r

    res = sut(call)
    if res.raised and st.prop == "C08" and any(h.box is not h0.box for h in hs):
        # << insists on bit-identical meshes; equal-but-distinct mesh objects may differ in
        # the last digit after a rotation - not a validity clause
        st.stats.hit("observed/derive_raised:lshift")
        return "derive-raised"
    obj = expect_ok(res, f"<< of {len(hs)} fields")
    arr = np.concatenate([h.fm.array for h in hs], axis=-1)
    valid = np.logical_and.reduce([h.fm.valid for h in hs])
    _finish_result(st, o, obj, h0, arr, valid, False)
    return "stacked"


@op("A.restack")
def op_restack(st, o):
    """Stacking the components of a vector field reproduces it."""
    h = st.h[o["on"]]
    if h.kind != "F" or h.fm.nvdim < 2 or not h.fm.vdims:
        return "skipped"

    def call():
        r = getattr(h.obj, h.fm.vdims[0])
        for name in h.fm.vdims[1:]:
            r = r << getattr(h.obj, name)
        return r

    res = sut(call)
    obj = expect_ok(res, "f.a << f.b << ...")
    st.stats.oracle("value")
    if "array" in st.predict:
        bad = []
        if not arrays_equal(np.asarray(obj.array), h.fm.array, h.fm.vtol):
            bad.append("values differ")
        # component access hands out unlabelled scalar fields, so only the default
        # labels and the default mapping can come back; custom ones are not judged
        mm = h.box.v
        dflt_v = default_vdims(h.fm.nvdim)
        if h.fm.vdims == dflt_v and list(obj.vdims or []) != dflt_v:
            bad.append(f"labels {obj.vdims} instead of {h.fm.vdims}")
        if h.fm.vdims == dflt_v and h.fm.mapping == default_mapping(h.fm.nvdim, dflt_v, mm.region.dims) and dict(obj.vdim_mapping) != h.fm.mapping:
            bad.append(f"mapping {dict(obj.vdim_mapping)} instead of {h.fm.mapping}")
        if not np.array_equal(obj.valid, h.fm.valid):
            bad.append("validity differs")
        if bad:
            raise Violation("restack", "stacking the components of a vector field does not reproduce it: " + "; ".join(bad), preds=[bad[0].split()[0]], kind="value")
    return "restacked"


@op("A.commute")
def op_commute(st, o):
    """a*b and b*a (likewise +) are the same field including labels and mapping."""
    ha, hb = st.h[o["a"]], st.h[o["b"]]
    if ha.kind != "F" or hb.kind != "F" or ha.box.v.key()[:2] != hb.box.v.key()[:2]:
        return "skipped"
    if not (ha.fm.nvdim == hb.fm.nvdim or 1 in (ha.fm.nvdim, hb.fm.nvdim)):
        return "skipped"
    differ = ha.fm.nvdim == hb.fm.nvdim and (ha.fm.vdims != hb.fm.vdims or ha.fm.mapping != hb.fm.mapping)
    if differ and not o.get("finding"):
        # two vector operands with different labels/mapping: recorded finding
        # C03/commute/A.commute/different-labels,... (replayed from findings/C03)
        return "skipped"
    libf = BIN[o["f"]][0]
    r1 = expect_ok(sut(lambda: libf(ha.obj, hb.obj)), f"a {o['f']} b")
    r2 = expect_ok(sut(lambda: libf(hb.obj, ha.obj)), f"b {o['f']} a")
    st.stats.oracle("value")
    bad = []
    a1, a2 = np.asarray(r1.array), np.asarray(r2.array)
    finite = a1.shape == a2.shape and bool(np.all(np.isfinite(a1)) and np.all(np.isfinite(a2)))
    # numpy's own complex arithmetic is not symmetric once inf/nan are involved
    # (and complex a*b vs b*a differ in the last bit: compared to 1e-12 relative)
    if r1.nvdim != r2.nvdim or a1.shape != a2.shape or (finite and not np.allclose(a1, a2, rtol=1e-12, atol=0)):
        bad.append("values differ")
    if (r1.vdims or None) != (r2.vdims or None):
        bad.append(f"labels {r1.vdims} vs {r2.vdims}")
    if dict(r1.vdim_mapping) != dict(r2.vdim_mapping):
        bad.append(f"mapping {dict(r1.vdim_mapping)} vs {dict(r2.vdim_mapping)}")
    if not np.array_equal(r1.valid, r2.valid):
        bad.append("validity differs")
    if bad:
        raise Violation("commute", f"a{o['f']}b and b{o['f']}a differ (a: nvdim {ha.fm.nvdim}, labels {ha.fm.vdims}; b: nvdim {hb.fm.nvdim}, labels {hb.fm.vdims}): " + "; ".join(bad), preds=[o["f"], bad[0].split()[0]] + (["different-labels"] if differ else []), kind="value")
    if ha.fm.nvdim != hb.fm.nvdim:
        st.stats.probe("commute_scalar_vector")
    return "commutes"


@op("A.commute_num")
def op_commute_num(st, o):
    """number (op) field and field (op) number are the same field - also when the number is a numpy
    scalar or the constant vector a numpy array, which numpy routes through the ufunc protocol."""
    h = st.h[o["on"]]
    if h.kind != "F":
        return "skipped"
    nv = h.fm.nvdim
    if o["kind"] == "npnum":
        other = getattr(np, o.get("np", "float64"))(o["v"])
    else:
        vec = o["v"]
        if not (len(vec) == nv or nv == 1):
            return "skipped"
        other = np.asarray(vec, dtype=float)
    if h.fm.array.dtype.kind == "c" and o["f"] not in ("mul", "add"):
        return "skipped"
    libf = BIN[o["f"]][0]
    r1 = expect_ok(sut(lambda: libf(other, h.obj)), f"numpy operand {o['f']} field")
    r2 = expect_ok(sut(lambda: libf(h.obj, other)), f"field {o['f']} numpy operand")
    st.stats.oracle("value")
    st.stats.probe("commute_numpy_operand")
    bad = []
    a1, a2 = np.asarray(r1.array), np.asarray(r2.array)
    finite = a1.shape == a2.shape and bool(np.all(np.isfinite(a1)) and np.all(np.isfinite(a2)))
    if getattr(r1, "nvdim", None) != getattr(r2, "nvdim", None) or a1.shape != a2.shape or (finite and not np.allclose(a1, a2, rtol=1e-12, atol=0)):
        bad.append("values differ")
    else:
        if (r1.vdims or None) != (r2.vdims or None):
            bad.append(f"labels {r1.vdims} vs {r2.vdims}")
        if dict(r1.vdim_mapping) != dict(r2.vdim_mapping):
            bad.append(f"mapping {dict(r1.vdim_mapping)} vs {dict(r2.vdim_mapping)}")
        if not np.array_equal(r1.valid, r2.valid):
            bad.append("validity differs")
    if bad:
        raise Violation("commute", f"x{o['f']}f and f{o['f']}x differ for x = {other!r} (field nvdim {nv}, labels {h.fm.vdims}): " + "; ".join(bad), preds=[o["f"], bad[0].split()[0], "numpy-operand"], kind="value")
    return "commutes"


@op("A.cplx")
def op_cplx(st, o):
    h = st.h[o["on"]]
    if h.kind != "F":
        return "skipped"
    res = sut(getattr, h.obj, o["f"])
    obj = expect_ok(res, f"field.{o['f']}")
    arr = CPLX[o["f"]](h.fm.array)
    _finish_result(st, o, obj, h, np.asarray(arr), h.fm.valid.copy(), o["f"] in INEXACT, vdims=h.fm.vdims, mapping=dict(h.fm.mapping))
    return o["f"]


@op("A.ufunc")
def op_ufunc(st, o):
    args = o["args"]
    first = next((a for a in args if isinstance(a, int) and not isinstance(a, bool)), None)
    if first is None or st.h[first].kind != "F":
        return "skipped"
    ha = st.h[first]
    objs, arrs, valids = [], [], []
    for a in args:
        opd = _operand(st, a, ha.box.v.n, ha.fm.nvdim)
        if opd is None:
            return "skipped"
        if opd[3] is not None and (opd[3].box.v.key()[:2] != ha.box.v.key()[:2] or opd[3].fm.nvdim != ha.fm.nvdim):
            return "skipped"
        objs.append(opd[0])
        arrs.append(opd[1])
        if opd[3] is not None:
            valids.append(opd[3].fm.valid)
    uf = (UFUNCS1 if len(args) == 1 else UFUNCS2)[o["f"]]
    if any(np.asarray(a).dtype.kind == "c" for a in arrs) and o["f"] in ("maximum", "hypot"):
        return "skipped"
    res = sut(lambda: uf(*objs))
    obj = expect_ok(res, f"np.{o['f']}(fields)", preds=[o["f"]])
    with np.errstate(all="ignore"):
        arr = uf(*arrs)
    if not isinstance(obj, st.df.Field):
        raise Violation("result.type", f"np.{o['f']} on fields returned {type(obj).__name__}", kind="value")
    # a ufunc with one field is a unary operation, with two fields a binary one: the operand's validity /
    # the AND of both (C08; compared only where the profile predicts validity)
    _finish_result(st, o, obj, ha, np.asarray(arr), np.logical_and.reduce(valids), o["f"] in INEXACT)
    return o["f"]


@op("A.inplace")
def op_ainplace(st, o):
    """np.<ufunc>(a, x, out=a): the caller updates a field in place through the ufunc
    protocol; every later expression must see the new values."""
    h = st.h[o["on"]]
    if h.kind != "F" or h.fm.array.dtype.kind != "f":
        return "skipped"
    uf = {"add": np.add, "multiply": np.multiply, "subtract": np.subtract}[o["f"]]
    x = dec(o["x"])
    res = sut(lambda: uf(h.obj, x, out=h.obj))
    expect_ok(res, f"np.{o['f']}(a, {x}, out=a)")
    want = uf(h.fm.array, x)
    got = np.asarray(h.obj.array)
    if "array" in st.predict:
        if got.shape != want.shape or not arrays_equal(got, want):
            raise Violation("result.array", f"np.{o['f']}(a, {x}, out=a) did not update a in place to the numpy result", preds=[o["f"], "out"], kind="value")
        h.fm.array = want
    else:
        h.fm.array = np.array(got, copy=True)
    st.stats.probe("inplace_ufunc")
    st.stats.oracle("H")
    return "inplace-ufunc"


@op("A.resample")
def op_aresample(st, o):
    """A coarser copy of a field on the SAME region (the library hands the region object on):
    a second mesh that differs from the operand's only in n, with cell counts that numpy
    would broadcast. Everything about the result is adopted (C07's business); it serves as
    an operand that must be refused together with its source."""
    h = st.h[o["on"]]
    if h.kind != "F":
        return "skipped"
    n = h.box.v.n
    n2 = tuple(1 if o["ones"][k % len(o["ones"])] else n[k] for k in range(len(n)))
    if n2 == tuple(n):
        return "skipped"
    res = sut(h.obj.resample, n2)
    if res.raised:
        st.stats.hit("observed/derive_raised:resample")
        return "derive-raised"
    obj = res.v
    new_field(st, o["out"], obj, Box(adopt_mesh(obj.mesh)), {})
    st.stats.probe("resampled_same_region")
    if obj.mesh.region is h.obj.mesh.region:
        st.stats.probe("resampled_shares_region_object")
    return "resampled"


@op("A.reject")
def op_areject(st, o):
    """Combining fields on different meshes or with incompatible component counts."""
    ha = st.h[o["a"]]
    f = o["f"]
    if isinstance(o["b"], dict):
        # a constant vector with an incompatible number of entries, or an operand of a type that cannot
        # be combined with a field, on either side: refused, and (whole-heap pass) the field is untouched
        if ha.kind != "F" or f not in BIN:
            return "skipped"
        if "vec" in o["b"]:
            if ha.fm.nvdim == 1 or len(o["b"]["vec"]) in (1, ha.fm.nvdim):
                return "skipped"
            other = _operand(st, o["b"], ha.box.v.n, ha.fm.nvdim)[0]
            why = "vector length"
        else:
            other = {"str": "abc", "none": None, "dict": {"a": 1}}[o["b"]["bad"]]
            why = "operand type"
        libf = BIN[f][0]
        res = sut(lambda: libf(other, ha.obj)) if o.get("reflected") else sut(lambda: libf(ha.obj, other))
        st.stats.fault("rejected_args")
        st.stats.oracle("F")
        st.stats.probe("rejected_constant_operand")
        if not res.raised:
            raise Violation("reject.accepted", f"{f} of a field with nvdim {ha.fm.nvdim} and {o['b']} (reflected={bool(o.get('reflected'))}) was accepted", preds=[f, why], kind="F")
        return "rejected"
    hb = st.h[o["b"]]
    if ha.kind != "F" or hb.kind != "F":
        return "skipped"
    same_mesh = ha.box.v.key()[:2] == hb.box.v.key()[:2]
    if f.startswith("np."):
        if same_mesh:
            return "skipped"  # (what numpy makes of incompatible component counts is numpy's business)
        bad_dim = False
    elif f in ("dot", "cross", "angle"):
        bad_dim = ha.fm.nvdim != hb.fm.nvdim
    elif f == "lshift":
        bad_dim = False
    else:
        bad_dim = not (ha.fm.nvdim == hb.fm.nvdim or 1 in (ha.fm.nvdim, hb.fm.nvdim))
    if same_mesh and not bad_dim:
        return "skipped"
    if not same_mesh:
        # decision margin: the meshes must differ by far more than the tolerance of the
        # library's mesh comparison (or in n)
        ma, mb = ha.box.v, hb.box.v
        if ma.region.dims != mb.region.dims:
            return "skipped"
        if ma.n == mb.n:
            d = max(abs(x - y) for x, y in zip(ma.region.pmin + ma.region.pmax, mb.region.pmin + mb.region.pmax))
            if d < min(ma.cell) / 8:
                return "skipped"
    call = {
        "dot": lambda: ha.obj.dot(hb.obj), "cross": lambda: ha.obj.cross(hb.obj), "angle": lambda: ha.obj.angle(hb.obj),
        "lshift": lambda: ha.obj << hb.obj,
        # the same combination through the ufunc protocol
        "np.add": lambda: np.add(ha.obj, hb.obj), "np.multiply": lambda: np.multiply(ha.obj, hb.obj), "np.subtract": lambda: np.subtract(ha.obj, hb.obj),
    }.get(f) or (lambda: BIN[f][0](ha.obj, hb.obj))
    res = sut(call)
    st.stats.fault("rejected_args")
    st.stats.oracle("F")
    if not res.raised:
        raise Violation("reject.accepted", f"{f} of fields on {'different meshes' if not same_mesh else 'one mesh'} with nvdim {ha.fm.nvdim} and {hb.fm.nvdim} was accepted", preds=[f, "mesh" if not same_mesh else "nvdim"], kind="F")
    return "rejected"


# --------------------------------------------------------------------------------------
# validity (C08)
# --------------------------------------------------------------------------------------
def alias_scan(st, s, h):
    """After the validity of handle s was changed: no other handle's validity may have
    changed (C08: a result's validity is its own)."""
    for s2, h2 in sorted(st.h.items()):
        if s2 == s or h2.kind != "F":
            continue
        st.stats.oracle("A")
        v2 = np.asarray(h2.obj.valid)
        if v2.shape == h2.fm.valid.shape and np.array_equal(v2.astype(bool), h2.fm.valid):
            continue
        rel = "same-object" if h2.obj is h.obj else ("shares-memory" if isinstance(h.obj.valid, np.ndarray) and np.shares_memory(v2, h.obj.valid) else "other")
        if s in h2.meta.get("parents", []):
            origin, who = h2.meta.get("from", "?"), f"result (handle {s2}) of {h2.meta.get('from')} on the mutated field"
        elif s2 in h.meta.get("parents", []):
            origin, who = h.meta.get("from", "?"), f"operand (handle {s2}) from which the mutated field was derived by {h.meta.get('from')}"
        else:
            origin, who = "indirect", f"handle {s2} (related through intermediate results; its origin: {h2.meta.get('from')}, mutated handle's origin: {h.meta.get('from')})"
        raise Violation("alias.valid", f"changing the validity of handle {s} also changed the validity of the {who} [{rel}]", preds=[origin, rel], kind="A")


@op("V.set")
def op_vset(st, o):
    h = st.h[o["on"]]
    if h.kind != "F":
        return "skipped"
    mm = h.box.v
    how = o["how"]
    before = h.fm.array
    if how["t"] == "array":
        m = make_array(dict(how["a"], shape=list(mm.n)))
        as_ = how.get("as", "bool")
        val = m.copy() if as_ == "bool" else (m.astype(int) if as_ == "int" else m.tolist())
        want = m
    elif how["t"] == "const":
        val, want = (np.bool_(how["v"]) if how.get("np") else how["v"]), np.full(mm.n, bool(how["v"]))  # np.bool_: what np.all(...) returns
    elif how["t"] == "fn":
        m = make_array(dict(how["a"], shape=list(mm.n)))
        f = CellFn(mm, m[..., None], scalar_ok=True)
        val, want = (lambda p: bool(f(p))), m
    elif how["t"] == "norm":
        a = h.fm.array.astype(complex)
        L = np.sqrt((np.abs(a) ** 2).sum(axis=-1))
        if np.any((L > 0.95e-8) & (L < 1.05e-8)) or not np.all(np.isfinite(L)):
            return "skipped"  # decision margin around the library's 1e-8 threshold, or NaN/inf cells (S2)
        val, want = "norm", L >= 1.05e-8
    else:
        raise HarnessError(how)
    res = sut(setattr, h.obj, "valid", val)
    expect_ok(res, f"valid = <{how['t']}>")
    if how["t"] == "fn" and f.bad:
        raise Violation("spec.point", f"validity function {f.bad[0]}", kind="value")
    st.stats.oracle("value")
    got = np.asarray(h.obj.valid)
    if got.dtype != np.bool_ or got.shape != tuple(mm.n):
        raise Violation("valid.bool_shape", f"after valid = <{how['t']}{'/' + how.get('as', '') if how['t'] == 'array' else ''}> the validity has dtype {got.dtype} and shape {got.shape}, not bool of shape {tuple(mm.n)}", preds=[how["t"], how.get("as", "")], kind="value")
    if not arrays_equal(np.asarray(h.obj.array), before, 0.0):
        raise Violation("valid.changed_values", "assigning validity changed the stored values", kind="value")
    h.fm.valid = want.astype(bool)
    st.stats.probe("mutate_then_look")
    alias_scan(st, o["on"], h)
    return "valid-set"


@op("V.poke")
def op_vpoke(st, o):
    """The caller changes a result's validity afterwards, in place in the buffer."""
    h = st.h[o["on"]]
    if h.kind != "F":
        return "skipped"
    v = h.obj.valid
    if not isinstance(v, np.ndarray) or v.size == 0:
        return "skipped"
    flat = o["i"] % v.size
    idx = np.unravel_index(flat, v.shape)
    new = not bool(h.fm.valid[idx])
    try:
        v[idx] = new
    except ValueError:
        return "skipped"  # read-only buffer: nothing can leak
    h.fm.valid = h.fm.valid.copy()
    h.fm.valid[idx] = new
    st.stats.probe("mutate_then_look")
    alias_scan(st, o["on"], h)
    return "poked"


def _map_valid(src_m, src_valid, dst_m, outside=None, insert=None):
    """Validity mapped by cell position: each destination cell takes the validity of
    the source cell containing its centre; ``outside`` handles cells outside the source
    (callable idx -> bool) or None to fail."""
    out = np.zeros(dst_m.n, dtype=bool)
    amb = np.zeros(dst_m.n, dtype=bool)
    for idx in np.ndindex(*dst_m.n):
        c = dst_m.centre_of(idx)
        if insert is not None:  # plane selection: the removed axis sits at coordinate x
            c = (*c[: insert[0]], insert[1], *c[insert[0] :])
        j = src_m.index_of(c)
        if j is None:
            if outside is None:
                raise HarnessError("destination cell outside the source")
            out[idx] = outside(idx)
            continue
        cj = src_m.centre_of(j)
        if any(abs(a - b) > cs * Fr(7, 16) for a, b, cs in zip(c, cj, src_m.cell)):
            amb[idx] = True
        out[idx] = src_valid[j]
    return out, amb


@op("D.diff")
def op_diff(st, o):
    h = st.h[o["on"]]
    if h.kind != "F" or o["d"] >= h.box.v.region.ndim or h.fm.array.dtype.kind == "c":
        return "skipped"
    dim = h.box.v.region.dims[o["d"]]
    res = sut(h.obj.diff, dim, order=o["order"], restrict2valid=o.get("r2v", True))
    if res.raised and st.prop == "C08":
        st.stats.hit("observed/derive_raised:diff")
        return "derive-raised"  # a failing derivative is no validity clause (C04/C14 territory)
    obj = expect_ok(res, f"field.diff({dim!r}, order={o['order']})")
    box = result_box(st, obj, h, h.box.v)
    new_field(st, o["out"], obj, box, {"valid": h.fm.valid.copy(), "nvdim": h.fm.nvdim})
    st.stats.oracle("value")
    return "diff"


@op("D.vcalc")
def op_vcalc(st, o):
    """grad / div / curl / laplace: compositions of the derivatives (and of << and +), so the
    result carries the operand's validity (C08: derivatives, and all compositions)."""
    h = st.h[o["on"]]
    if h.kind != "F" or h.fm.array.dtype.kind == "c":
        return "skipped"
    f = o["f"]
    res = sut(lambda: getattr(h.obj, f))
    if res.raised:
        # wrong component count / missing mapping / too few cells: C05 territory, no validity clause
        st.stats.hit("observed/derive_raised:" + f)
        return "derive-raised"
    obj = res.v
    if not isinstance(obj, st.df.Field) or tuple(obj.mesh.n) != tuple(h.box.v.n):
        return "not-a-field"
    box = result_box(st, obj, h, h.box.v)
    new_field(st, o["out"], obj, box, {"valid": h.fm.valid.copy(), "nvdim": int(obj.nvdim)})
    st.stats.oracle("value")
    st.stats.probe("vcalc")
    return f


@op("D.sel")
def op_dsel(st, o):
    """Plane / range selection, extraction by region or name, padding, resampling: the
    validity is mapped by cell position exactly as the data."""
    h = st.h[o["on"]]
    if h.kind != "F":
        return "skipped"
    mm = h.box.v
    nd = mm.region.ndim
    how = o["how"]
    t = how["t"]
    if t in ("plane", "range"):
        if how["d"] >= nd or nd < 2:
            return "skipped"
        dim = mm.region.dims[how["d"]]
        if t == "plane":
            i = how["i"] % mm.n[how["d"]]
            x = float(mm.region.pmin[how["d"]] + (i + Fr(1, 2) + Fr(how.get("off", 0), 4)) * mm.cell[how["d"]])
            res = sut(h.obj.sel, **{dim: x})
        else:
            i0 = how["i"] % mm.n[how["d"]]
            i1 = i0 + how["w"] % (mm.n[how["d"]] - i0)
            lo = float(mm.region.pmin[how["d"]] + (i0 + Fr(1, 4)) * mm.cell[how["d"]])
            hi = float(mm.region.pmin[how["d"]] + (i1 + Fr(3, 4)) * mm.cell[how["d"]])
            res = sut(h.obj.sel, **{dim: (lo, hi)})
        call = f"sel({dim}={t})"
    elif t == "name":
        names = [k for k, _ in mm.subs]
        if not names:
            return "skipped"
        name = names[how["i"] % len(names)]
        res = sut(h.obj.__getitem__, name)
        call = f"field[{name!r}]"
    elif t == "region":
        lo = [how["lo"][k % len(how["lo"])] % mm.n[k] for k in range(nd)]
        hi = [lo[k] + how["w"][k % len(how["w"])] % (mm.n[k] - lo[k]) for k in range(nd)]
        p1 = [float(mm.region.pmin[k] + (lo[k] + Fr(1, 4)) * mm.cell[k]) for k in range(nd)]
        p2 = [float(mm.region.pmin[k] + (hi[k] + Fr(3, 4)) * mm.cell[k]) for k in range(nd)]
        reg = st.df.Region(p1=p1, p2=p2, dims=list(mm.region.dims), units=list(mm.region.units))
        res = sut(h.obj.__getitem__, reg)
        call = "field[region]"
    elif t == "pad":
        if how["d"] >= nd:
            return "skipped"
        dim = mm.region.dims[how["d"]]
        kw = {"constant_values": how["cv"]} if how["mode"] == "constant" and "cv" in how else {}
        res = sut(h.obj.pad, {dim: (how["lo"], how["hi"])}, mode=how["mode"], **kw)
        call = f"pad({dim}: ({how['lo']},{how['hi']}), {how['mode']}{', constant_values=' + str(how['cv']) if kw else ''})"
    elif t == "resample":
        n2 = [max(1, how["n"][k % len(how["n"])]) for k in range(nd)]
        res = sut(h.obj.resample, tuple(n2))
        call = f"resample({n2})"
    else:
        raise HarnessError(t)
    if res.raised and st.prop == "C08":
        st.stats.hit("observed/derive_raised:" + t)
        return "derive-raised"  # a failing selection is no validity clause (C07/C14 territory)
    obj = expect_ok(res, call, preds=[t])
    if not isinstance(obj, st.df.Field):
        return "not-a-field"
    dm = adopt_mesh(obj.mesh)
    outside = None
    if t == "pad":
        d = how["d"]
        nsrc = mm.n[d]
        mode = how["mode"]

        def outside(idx, d=d, nsrc=nsrc, mode=mode, lo=how["lo"]):
            i = idx[d] - lo  # index relative to the source along the padded axis
            j = list(idx)
            if mode == "constant":
                # "validity is transformed exactly as the data": the padding value given for the data pads the mask
                return bool(how.get("cv", 0))
            if mode == "wrap":
                j[d] = i % nsrc
            elif mode == "edge":
                j[d] = min(max(i, 0), nsrc - 1)
            elif mode == "symmetric":
                p = i % (2 * nsrc)
                j[d] = p if p < nsrc else 2 * nsrc - 1 - p
            elif mode == "reflect":
                if nsrc == 1:
                    j[d] = 0
                else:
                    p = i % (2 * nsrc - 2)
                    j[d] = p if p < nsrc else 2 * nsrc - 2 - p
            return bool(h.fm.valid[tuple(j)])

    insert = (how["d"], fr(x)) if t == "plane" else None
    valid, amb = _map_valid(mm, h.fm.valid, dm, outside, insert)
    got = np.asarray(obj.valid).astype(bool)
    if got.shape == valid.shape:
        valid[amb] = got[amb]  # ambiguous cells (centre on a source face) are adopted ...
        if t == "resample" and amb.any():
            # ... unless the DATA tells which of the neighbouring source cells the library took:
            # validity is transformed exactly as the data, so it must come from that same cell
            import itertools

            src_a, dst_a = np.asarray(h.obj.array), np.asarray(obj.array)
            for idx in (tuple(int(i) for i in w) for w in np.argwhere(amb)):
                j = mm.index_of(dm.centre_of(idx))
                if j is None or dst_a.shape[:-1] != valid.shape:
                    continue
                cands = [c for c in itertools.product(*[[x for x in (jk - 1, jk, jk + 1) if 0 <= x < nk] for jk, nk in zip(j, mm.n)])
                         if np.array_equal(src_a[c], dst_a[idx])]
                if len(cands) == 1:
                    valid[idx] = bool(h.fm.valid[cands[0]])
                    st.stats.probe("tie_decided_by_data")
    nh = new_field(st, o["out"], obj, Box(dm), {"valid": valid, "nvdim": h.fm.nvdim})
    st.stats.oracle("value")
    return t


@op("D.rot")
def op_drot(st, o):
    """Quarter-turn rotation as a derive op of the validity profile."""
    from .ops_geom import field_rot_refused, rot_axes, rot_field_model

    h = st.h[o["on"]]
    if h.kind != "F":
        return "skipped"
    mm = h.box.v
    axes = rot_axes(mm.region, o["ax1"], o["ax2"])
    if axes is None or field_rot_refused(h.fm, mm, o["ax1"], o["ax2"]):
        return "skipped"
    res = sut(h.obj.rotate90, o["ax1"], o["ax2"], k=o["k"])
    obj = expect_ok(res, f"rotate90({o['ax1']},{o['ax2']},k={o['k']})")
    fm2, m2 = rot_field_model(h.fm, mm, axes[0], axes[1], o["k"], None)
    new_field(st, o["out"], obj, Box(adopt_mesh(obj.mesh)), {"valid": fm2.valid, "nvdim": h.fm.nvdim})
    st.stats.oracle("value")
    return "rot"


@op("D.file")
def op_dfile(st, o):
    """HDF5 / VTK round trip through SimFS: validity comes back as it was."""
    h = st.h[o["on"]]
    if h.kind != "F":
        return "skipped"
    mm = h.box.v
    fmt = o["fmt"]
    if fmt == "vtk" and (mm.region.ndim != 3 or h.fm.array.dtype.kind == "c" or (h.fm.nvdim > 1 and not h.fm.vdims)):
        return "skipped"
    if st.fs is None:
        from .simfs import SimFS

        st.fs = SimFS(st.df)
    name = st.fs.path(f"v{st.nsteps}.{'h5' if fmt == 'hdf5' else 'vtk'}")
    kw = {} if fmt == "hdf5" else {"representation": o.get("rep", "bin")}
    res = sut(h.obj.to_file, name, **kw)
    expect_ok(res, f"to_file({fmt})", "S")
    if o.get("restart"):
        st.stats.fault("restart")
    res = sut(st.df.Field.from_file, name)
    obj = expect_ok(res, f"from_file({fmt})", "S")
    new_field(st, o["out"], obj, Box(adopt_mesh(obj.mesh)), {"valid": h.fm.valid.copy(), "nvdim": h.fm.nvdim})
    st.stats.oracle("S")
    return "roundtrip"
