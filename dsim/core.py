"""dsim core: seeds, run records, event digest, ddmin shrinking, replay, parallel
runner, known findings, evidence.  See DESIGN.md section 3.

Nothing in here draws randomness except from the per-run ``random.Random`` derived from
VERIF_SEED; nothing reads a clock except to report wall time in the evidence.
"""
import collections
import concurrent.futures
import faulthandler
import hashlib
import json
import multiprocessing
import os
import random
import subprocess
import sys
import time
import traceback

VERIF = os.path.dirname(os.path.dirname(os.path.abspath(__file__)))
REPO = os.environ.get("DSIM_REPO", "/repo")
GUARD = "UBERMAG_DISCRETISEDFIELD_VERIF"
ENGINE_VERSION = 1


# --------------------------------------------------------------------------------------
# system under test
# --------------------------------------------------------------------------------------
def setup_sut():
    """Import discretisedfield from REPO's working tree (hooks on) and return it."""
    os.environ[GUARD] = "1"
    os.environ.setdefault("OMP_NUM_THREADS", "1")
    os.environ.setdefault("OPENBLAS_NUM_THREADS", "1")
    if sys.path[0] != REPO:
        sys.path.insert(0, REPO)
    import warnings

    warnings.simplefilter("ignore")
    import numpy as np

    np.seterr(all="ignore")
    import discretisedfield as df

    src = os.path.realpath(os.path.dirname(df.__file__))
    want = os.path.realpath(os.path.join(REPO, "discretisedfield"))
    if src != want:
        raise HarnessError(f"discretisedfield imported from {src}, wanted {want}")
    return df


# --------------------------------------------------------------------------------------
# verdict taxonomy
# --------------------------------------------------------------------------------------
class Violation(Exception):
    """A property clause failed on the real code."""

    def __init__(self, oracle, message, preds=(), kind="value"):
        super().__init__(message)
        self.oracle = oracle
        self.message = message
        self.preds = tuple(sorted(str(p) for p in preds))
        self.kind = kind  # S / H / A / F / value


class HarnessError(Exception):
    """A bug in dsim itself (never a VIOLATION, never exit 0)."""


class SimCrash(BaseException):
    """The simulated process dies here (torn write)."""


class Ok:
    __slots__ = ("v",)
    raised = False

    def __init__(self, v):
        self.v = v


class Raised:
    __slots__ = ("e",)
    raised = True

    def __init__(self, e):
        self.e = e

    def __repr__(self):
        return f"Raised({type(self.e).__name__}: {str(self.e)[:120]})"


def sut(fn, *a, **k):
    """Narrow wrapper around one library call."""
    try:
        return Ok(fn(*a, **k))
    except SimCrash:
        raise
    except Exception as e:  # noqa: BLE001 - the exception type is not part of any property
        return Raised(e)


# --------------------------------------------------------------------------------------
# seeds
# --------------------------------------------------------------------------------------
def run_rng(seed, prop, i):
    h = hashlib.sha256(f"{seed}/{prop}/{i}".encode()).digest()
    return random.Random(int.from_bytes(h[:16], "big"))


def fhex(x):
    return float(x).hex()


def unhex(s):
    return float.fromhex(s)


def canon(o):
    return json.dumps(o, sort_keys=True, separators=(",", ":"), default=_default)


def _default(o):
    import numpy as np

    if isinstance(o, (np.integer,)):
        return int(o)
    if isinstance(o, (np.floating,)):
        return float(o).hex()
    if isinstance(o, np.ndarray):
        return o.tolist()
    if isinstance(o, (set, frozenset)):
        return sorted(o)
    if isinstance(o, bytes):
        return o.hex()
    return repr(o)


# --------------------------------------------------------------------------------------
# per-run statistics
# --------------------------------------------------------------------------------------
class Stats:
    def __init__(self):
        self.c = collections.Counter()

    def hit(self, key, n=1):
        self.c[key] += n

    def fault(self, kind):
        self.c["fault/" + kind] += 1

    def oracle(self, kind, n=1):
        self.c["oracle/" + kind] += n

    def probe(self, name, n=1):
        self.c["probe/" + name] += n


# --------------------------------------------------------------------------------------
# profile interface
# --------------------------------------------------------------------------------------
class Profile:
    deep = False
    prop = None
    name = None
    engine = None
    level = "exploration"
    max_steps = 40
    required_probes = ()

    def draw_config(self, rng):
        """Swarm configuration of one run; the thorough tier deepens it."""
        cfg = self._draw_config(rng)
        if self.deep:
            if "steps" in cfg:
                cfg["steps"] = cfg["steps"] * 2 + rng.randint(0, 10)
            if "pool" in cfg:
                cfg["pool"] = cfg["pool"] + rng.randint(0, 4)
            if "sweep" in cfg and not cfg["sweep"]:
                cfg["sweep"] = rng.random() < 0.1
            if "large" in cfg and not cfg["large"]:
                cfg["large"] = rng.random() < 0.03
            if "nfields" in cfg:
                cfg["nfields"] = cfg["nfields"] + rng.randint(0, 2)
        return cfg

    def _draw_config(self, rng):
        raise NotImplementedError

    def new_state(self, config, stats):
        raise NotImplementedError

    def gen_op(self, rng, state):
        raise NotImplementedError

    def simplify(self, op):
        """Yield simpler variants of op (for shrinking)."""
        return ()

    def extra_runs(self, tier):
        """Optional: list of (label, callable(stats)->None) deterministic sweeps."""
        return ()


class RunResult:
    __slots__ = (
        "ops",
        "config",
        "violation",
        "step",
        "digest",
        "stats",
        "outcomes",
        "harness",
        "nsteps",
        "shape",
    )

    def __init__(self):
        self.ops = []
        self.config = None
        self.violation = None
        self.step = None
        self.digest = None
        self.stats = Stats()
        self.outcomes = []
        self.harness = None
        self.nsteps = 0
        self.shape = None


def sig_of(prop, v, opkind):
    return f"{prop}/{v.oracle}/{opkind}/{','.join(v.preds)}"


def _apply(state, op, res, h):
    """Apply one op; returns False when the run must stop (violation)."""
    try:
        outcome = state.apply(op)
    except Violation as v:
        res.violation = v
        res.step = len(res.outcomes)
        res.outcomes.append("VIOLATION:" + v.oracle)
        h.update((canon(op) + "|VIOLATION|" + v.oracle + "\n").encode())
        return False
    res.outcomes.append(outcome)
    h.update((canon(op) + "|" + str(outcome) + "|" + state.digest() + "\n").encode())
    return True


def generate_run(profile, seed, i):
    """Generate and execute run i. The op list recorded is concrete and replayable."""
    rng = run_rng(seed, profile.prop, i)
    res = RunResult()
    res.config = profile.draw_config(rng)
    h = hashlib.sha256(canon(res.config).encode())
    state = profile.new_state(res.config, res.stats)
    try:
        for _ in range(res.config.get("steps", profile.max_steps)):
            op = profile.gen_op(rng, state)
            if op is None:
                break
            res.ops.append(op)
            if not _apply(state, op, res, h):
                break
        else:
            pass
        if res.violation is None:
            for op in state.final_ops():
                res.ops.append(op)
                if not _apply(state, op, res, h):
                    break
        try:
            res.shape = state.shape()
        except Exception:  # noqa: BLE001
            res.shape = None
    finally:
        state.close()
    res.nsteps = len(res.outcomes)
    res.digest = h.hexdigest()
    return res


def execute_ops(profile, config, ops):
    """Execute a recorded op list on a fresh state (never consults a PRNG)."""
    res = RunResult()
    res.config = config
    res.ops = list(ops)
    h = hashlib.sha256(canon(config).encode())
    state = profile.new_state(config, res.stats)
    try:
        for op in ops:
            if not _apply(state, op, res, h):
                break
    finally:
        state.close()
    res.nsteps = len(res.outcomes)
    res.digest = h.hexdigest()
    return res


def _vkey(profile, res):
    if res.violation is None:
        return None
    opk = res.ops[res.step]["op"] if res.step is not None and res.step < len(res.ops) else "?"
    return sig_of(profile.prop, res.violation, opk)


def shrink(profile, config, ops, key, budget=400):
    """ddmin over steps, then per-op simplification, keeping the violation class."""
    tests = [0]
    deadline = time.time() + float(os.environ.get("DSIM_SHRINK_SECONDS", "90"))  # large histories: stop minimising, keep what we have

    def fails(cand):
        if tests[0] >= budget or time.time() > deadline:
            return False
        tests[0] += 1
        try:
            r = exec_isolated(profile, config, cand)
        except Exception:  # harness trouble while shrinking: candidate not accepted
            return False
        return r["key"] == key

    cur = list(ops)
    # the failing step is the last executed one; cut the tail first
    r = exec_isolated(profile, config, cur)
    if r["key"] != key:
        return cur
    cur = cur[: r["step"] + 1]
    n = 2
    while len(cur) >= 2 and tests[0] < budget:
        chunk = max(1, len(cur) // n)
        reduced = False
        for start in range(0, len(cur), chunk):
            cand = cur[:start] + cur[start + chunk :]
            if cand and fails(cand):
                cur = cand
                n = max(n - 1, 2)
                reduced = True
                break
        if not reduced:
            if chunk == 1:
                break
            n = min(len(cur), n * 2)
    # per-op simplification
    changed = True
    while changed and tests[0] < budget:
        changed = False
        for idx in range(len(cur)):
            for simpler in profile.simplify(cur[idx]):
                cand = cur[:idx] + [simpler] + cur[idx + 1 :]
                if fails(cand):
                    cur = cand
                    changed = True
                    break
    return cur


# --------------------------------------------------------------------------------------
# known findings
# --------------------------------------------------------------------------------------
def load_known(prop):
    path = os.path.join(VERIF, "KNOWN_FINDINGS.txt")
    out = {}
    if not os.path.exists(path):
        return out
    for line in open(path, encoding="utf-8"):
        line = line.strip()
        if not line.startswith("finding:"):
            continue
        parts = line[len("finding:") :].split(None, 2)
        kv = dict(p.split("=", 1) for p in parts[:2] if "=" in p)
        if kv.get("property") == prop and "sig" in kv:
            out[kv["sig"]] = parts[2] if len(parts) > 2 else ""
    return out


# --------------------------------------------------------------------------------------
# isolation: every run (and every shrinking candidate) executes in a forked child of a
# process that has only IMPORTED the library, so one seed is one execution from the
# library's import-time state - whatever the library keeps between calls (caches, module-
# or class-level variables) can influence a run only through that run's own history, and a
# replay file reproduces it in a fresh interpreter.
# --------------------------------------------------------------------------------------
ISOLATE = os.environ.get("DSIM_ISOLATE", "1") != "0"


def in_child(fn, *args, timeout=900):
    """fn(*args) in a forked child; returns ("ok", value) or ("err", text)."""
    import pickle
    import signal

    r, w = os.pipe()
    pid = os.fork()
    if pid == 0:
        data = b""
        try:
            os.close(r)
            signal.alarm(timeout)
            data = pickle.dumps(("ok", fn(*args)))
        except BaseException:  # noqa: BLE001 - reported to the parent
            try:
                data = pickle.dumps(("err", traceback.format_exc()))
            except Exception:  # noqa: BLE001
                data = b""
        try:
            with os.fdopen(w, "wb") as f:
                f.write(data)
        finally:
            os._exit(0)
    os.close(w)
    with os.fdopen(r, "rb") as f:
        data = f.read()
    _, status = os.waitpid(pid, 0)
    if not data:
        return ("err", f"child process died without a result (wait status {status})")
    return pickle.loads(data)


def _exec_summary(profile, config, ops):
    """Execute ops; picklable summary (violation key, step, message, digest)."""
    r = execute_ops(profile, config, ops)
    return {"key": _vkey(profile, r), "step": r.step, "message": r.violation.message[:2000] if r.violation else None, "digest": r.digest,
            "oracle": r.violation.oracle if r.violation else None}


def exec_isolated(profile, config, ops):
    if not ISOLATE:
        return _exec_summary(profile, config, ops)
    st, out = in_child(_exec_summary, profile, config, ops)
    if st != "ok":
        raise HarnessError("isolated execution failed: " + str(out)[-1500:])
    return out


# --------------------------------------------------------------------------------------
# worker side
# --------------------------------------------------------------------------------------
_PROFILE = None


def _worker_chunk(args):
    seed, idxs, want_ops, timeout = args
    faulthandler.dump_traceback_later(timeout, exit=True)
    try:
        return _do_chunk(seed, idxs, want_ops)
    finally:
        faulthandler.cancel_dump_traceback_later()


def _one_run(seed, i):
    """Generate and execute run i; picklable summary."""
    profile = _PROFILE
    r = generate_run(profile, seed, i)
    ah = hashlib.sha256(
        canon([[o.get("op"), o.get("inplace"), o.get("fault"), oc] for o, oc in zip(r.ops, r.outcomes)]).encode()
    ).hexdigest()[:16]
    shaf = sum(v for k, v in r.stats.c.items() if k.startswith("oracle/") and k != "oracle/value")
    out = {"stats": dict(r.stats.c), "nsteps": r.nsteps, "digest": r.digest, "ah": ah, "nontrivial": bool(r.nsteps >= 2 and shaf > 0), "shape": r.shape,
           "config": r.config, "ops": r.ops, "outcomes": r.outcomes, "violation": None}
    if r.violation is not None:
        out["violation"] = {"sig": _vkey(profile, r), "oracle": r.violation.oracle, "message": r.violation.message[:2000], "step": r.step}
    else:
        out["ops"], out["outcomes"] = r.ops[:12], r.outcomes[:12]  # only a sample is needed
    return out


def _do_chunk(seed, idxs, want_ops):
    profile = _PROFILE
    agg = collections.Counter()
    digests = {}
    hist = {}
    viols = []
    samples = []
    harness = []
    shapes = set()
    for i in idxs:
        if ISOLATE:
            st, r = in_child(_one_run, seed, i)
            if st != "ok":
                harness.append((i, str(r)))
                continue
        else:
            try:
                r = _one_run(seed, i)
            except SimCrash:
                harness.append((i, "SimCrash escaped"))
                continue
            except Exception:
                harness.append((i, traceback.format_exc()))
                continue
        agg.update(r["stats"])
        agg["runs"] += 1
        agg["steps"] += r["nsteps"]
        digests[i] = r["digest"]
        hist[r["ah"]] = hist.get(r["ah"], False) or r["nontrivial"]
        if r["shape"] is not None:
            shapes.add(r["shape"])
        v = r["violation"]
        if want_ops and len(samples) < 1 and r["nsteps"] >= 3 and v is None:
            samples.append({"run": i, "config": r["config"], "ops": r["ops"][:12], "outcomes": r["outcomes"][:12]})
        if v is not None:
            key = v["sig"]
            entry = {
                "run": i,
                "sig": key,
                "oracle": v["oracle"],
                "message": v["message"],
                "config": r["config"],
                "step": v["step"],
                "nops": len(r["ops"]),
                "ops_full": r["ops"],
                "step_full": v["step"],
                "message_full": v["message"],
            }
            if sum(1 for x in viols if x["sig"] == key and "ops" in x) < 1:
                try:
                    small = shrink(profile, r["config"], r["ops"], key)
                    rr = exec_isolated(profile, r["config"], small)
                    if rr["key"] == key:
                        entry["ops"] = small
                        entry["step"] = rr["step"]
                        entry["message"] = rr["message"]
                        entry["digest"] = rr["digest"]
                    else:
                        entry["ops"] = r["ops"]
                except Exception:
                    entry["ops"] = r["ops"]
                    entry["shrink_error"] = traceback.format_exc()
            viols.append(entry)
    return {
        "agg": dict(agg),
        "digests": digests,
        "hist": hist,
        "viols": viols,
        "samples": samples,
        "harness": harness,
        "shapes": sorted(shapes),
    }


# --------------------------------------------------------------------------------------
# parent side
# --------------------------------------------------------------------------------------
TIERS = {"quick": 3000, "thorough": 100000}


def write_replay(profile, seed, entry):
    os.makedirs(os.path.join(VERIF, "replays"), exist_ok=True)
    name = f"{profile.prop}-seed{seed}-run{entry['run']}.json"
    path = os.path.join(VERIF, "replays", name)
    doc = {
        "property": profile.prop,
        "profile": profile.name,
        "engine_version": ENGINE_VERSION,
        "seed": seed,
        "run": entry["run"],
        "config": entry["config"],
        "ops": entry["ops"],
        "violation": {
            "step": entry["step"],
            "oracle": entry["oracle"],
            "signature": entry["sig"],
            "message": entry["message"],
        },
        "digest": entry.get("digest"),
    }
    with open(path, "w") as f:
        json.dump(doc, f, indent=1, default=_default)
    return path


def replay_file(profile, path):
    doc = json.load(open(path))
    r = execute_ops(profile, doc["config"], doc["ops"])
    key = _vkey(profile, r)
    want = doc["violation"]["signature"]
    if key == want and r.step == doc["violation"]["step"]:
        print(f"replayed: step={r.step} signature={key}")
        print(f"  message: {r.violation.message}")
        print(f"VIOLATION property={profile.prop} replay={path}")
        return 1
    print(f"REPLAY-MISMATCH: wanted {want} at step {doc['violation']['step']}, got {key} at step {r.step}")
    return 2


def _isolated_fails(profile, config, ops, key):
    """Execute ops in a forked child of this (pristine) process; True if the violation
    class `key` shows. The parent never executes library operations itself, so every
    candidate starts from the library's import-time state."""
    r, w = os.pipe()
    pid = os.fork()
    if pid == 0:
        code = 1
        try:
            os.close(r)
            res = execute_ops(profile, config, ops)
            hit = _vkey(profile, res) == key
            os.write(w, (json.dumps({"hit": hit, "step": res.step, "message": res.violation.message[:2000] if res.violation else None}) + "\n").encode())
            code = 0
        except BaseException:  # noqa: BLE001
            pass
        finally:
            os._exit(code)
    os.close(w)
    data = b""
    while True:
        chunk = os.read(r, 65536)
        if not chunk:
            break
        data += chunk
    os.close(r)
    os.waitpid(pid, 0)
    try:
        return json.loads(data.decode())
    except Exception:  # noqa: BLE001
        return {"hit": False}


def minimise_isolated(profile, path, budget=150):
    """ddmin over the steps of a replay file with every candidate run in a forked child of a
    process that has only imported the library (for failures that depend on state the library
    keeps between operations). Rewrites the file when a shorter history reproduces."""
    doc = json.load(open(path))
    key = doc["violation"]["signature"].split(" (NOT minimised")[0]
    config, cur = doc["config"], list(doc["ops"])
    tests = [0]

    def fails(c):
        if tests[0] >= budget:
            return None
        tests[0] += 1
        out = _isolated_fails(profile, config, c, key)
        return out if out.get("hit") else None

    base = fails(cur)
    if not base:
        print("minimise: the complete history does not reproduce in an isolated child")
        return 2
    cur = cur[: base["step"] + 1]
    last = base
    n = 2
    while len(cur) >= 2 and tests[0] < budget:
        chunk = max(1, len(cur) // n)
        reduced = False
        for start in range(0, len(cur), chunk):
            cand = cur[:start] + cur[start + chunk :]
            out = fails(cand) if cand else None
            if out:
                cur, last, n, reduced = cand, out, max(n - 1, 2), True
                break
        if not reduced:
            if chunk == 1:
                break
            n = min(len(cur), n * 2)
    doc["ops"] = cur
    doc["violation"].update(step=last["step"], message=last["message"], signature=key)
    doc["minimised_in_isolated_children"] = True
    with open(path, "w") as f:
        json.dump(doc, f, indent=1, default=_default)
    print(f"minimise: {len(cur)} ops after {tests[0]} isolated executions")
    return 0


def fresh_replay_ok(prop, path):
    """Replay in a fresh interpreter; must fail the same way (exit 1)."""
    env = dict(os.environ)
    env["PYTHONHASHSEED"] = "0"
    p = subprocess.run(
        [os.path.join(VERIF, "check"), prop, "--replay", path],
        capture_output=True,
        text=True,
        env=env,
        timeout=600,
    )
    return p.returncode == 1 and "VIOLATION property=" in p.stdout


def run_check(profile, tier, seed, runs=None, workers=None, digests_only=False, stop_early=True):
    global _PROFILE
    t0 = time.time()
    _PROFILE = profile
    profile.deep = tier == "thorough"  # thorough: longer histories, larger pools, more sweeps
    nruns = runs if runs is not None else profile.tier_runs(tier)
    workers = workers or int(os.environ.get("DSIM_WORKERS", "0")) or min(16, os.cpu_count() or 1)
    chunk = max(5, min(50, nruns // (workers * 8) or 5))
    idx_chunks = [list(range(s, min(s + chunk, nruns))) for s in range(0, nruns, chunk)]
    # the determinism mini-test: the first 64 runs are executed a second time in other
    # worker processes, and once more in a fresh interpreter under another hash seed
    ndet = min(64, nruns)
    det_chunks = [list(range(s, min(s + 8, ndet))) for s in range(0, ndet, 8)]
    fresh = None
    if not digests_only and os.environ.get("DSIM_NO_FRESH") != "1":
        env = dict(os.environ)
        env["PYTHONHASHSEED"] = "12345"
        env["DSIM_NO_FRESH"] = "1"
        fresh = subprocess.Popen(
            [os.path.join(VERIF, "check"), profile.prop, "--digests", str(min(24, ndet)), "--seed", str(seed), "--tier", tier],
            stdout=subprocess.PIPE,
            stderr=subprocess.DEVNULL,
            text=True,
            env=env,
        )
    timeout = int(os.environ.get("DSIM_CHUNK_TIMEOUT", "600"))
    agg = collections.Counter()
    digests = {}
    det = {}
    hist = {}
    viols = []
    samples = []
    harness = []
    truncated = False
    budget = float(os.environ.get("DSIM_WALL_CAP", "0") or 0) or (3000 if tier == "quick" else 6 * 3600)
    ctx = multiprocessing.get_context("fork")
    if workers == 1:
        for ch in idx_chunks:
            out = _do_chunk(seed, ch, True)
            _merge(out, agg, digests, hist, viols, samples, harness)
    else:
        with concurrent.futures.ProcessPoolExecutor(max_workers=workers, mp_context=ctx) as ex:
            futs = [(ex.submit(_worker_chunk, (seed, ch, k < 4, timeout)), False) for k, ch in enumerate(idx_chunks)]
            if not digests_only:
                futs += [(ex.submit(_worker_chunk, (seed, ch, False, timeout)), True) for ch in reversed(det_chunks)]
            try:
                for fut, is_det in futs:
                    try:
                        out = fut.result(timeout=timeout + 60)
                    except concurrent.futures.CancelledError:
                        continue
                    if is_det:
                        det.update(out["digests"])
                        harness.extend(out["harness"])
                        continue
                    _merge(out, agg, digests, hist, viols, samples, harness)
                    unknown = [v for v in viols if v["sig"] not in profile.known]
                    if (stop_early and len({v["sig"] for v in unknown}) >= 3) or harness:
                        for f2, _ in futs:
                            f2.cancel()
                    if time.time() - t0 > budget:
                        truncated = True
                        for f2, _ in futs:
                            f2.cancel()
            except (concurrent.futures.process.BrokenProcessPool, concurrent.futures.TimeoutError) as e:
                harness.append((-1, f"worker died or timed out: {e!r}"))
    if digests_only:
        print(json.dumps({str(k): v for k, v in sorted(digests.items())}))
        return 0
    # regression corpus: minimised histories of defects found earlier (fixed or seeded);
    # they are executed on every run and must stay clean
    import glob

    # open findings: minimised histories of recorded (unrepaired) defects. They are
    # replayed to confirm that the finding is still there; the generators avoid their
    # trigger so that the rest of the space is explored to full depth.
    for path in sorted(glob.glob(os.path.join(VERIF, "findings", profile.prop, "*.json"))):
        try:
            doc = json.load(open(path))
            r = exec_isolated(profile, doc["config"], doc["ops"])
        except Exception:
            harness.append((-1, f"finding case {path}: " + traceback.format_exc()))
            continue
        agg["finding_cases"] += 1
        if r["key"] is not None:
            viols.append({"run": 800000, "sig": r["key"], "oracle": r["oracle"], "message": r["message"],
                          "config": doc["config"], "step": r["step"], "nops": len(doc["ops"]), "ops": doc["ops"], "digest": r["digest"]})
        else:
            print(f"NOTE: recorded finding {os.path.basename(path)} no longer reproduces (repaired?)")
    nreg = 0
    for path in sorted(glob.glob(os.path.join(VERIF, "regress", profile.prop, "*.json"))):
        try:
            doc = json.load(open(path))
            r = exec_isolated(profile, doc["config"], doc["ops"])
        except Exception:
            harness.append((-1, f"regression case {path}: " + traceback.format_exc()))
            continue
        nreg += 1
        agg["regression_cases"] += 1
        if r["key"] is not None:
            viols.append({"run": 900000 + nreg, "sig": r["key"], "oracle": r["oracle"], "message": r["message"],
                          "config": doc["config"], "step": r["step"], "nops": len(doc["ops"]), "ops": doc["ops"], "digest": r["digest"]})
    # extra deterministic sweeps (e.g. C09 truncation sweeps) run in the parent
    det_mismatch = [i for i in det if digests.get(i) not in (None, det[i])]
    fresh_mismatch = []
    fresh_n = 0
    if fresh is not None:
        try:
            out, _ = fresh.communicate(timeout=900)
            fd = json.loads(out.strip().splitlines()[-1])
            fresh_n = len(fd)
            fresh_mismatch = [int(k) for k, v in fd.items() if digests.get(int(k)) not in (None, v)]
        except Exception as e:  # noqa: BLE001
            harness.append((-1, f"fresh-interpreter determinism run failed: {e!r}"))
    return finish(profile, tier, seed, nruns, t0, agg, digests, hist, viols, samples, harness, det, det_mismatch, fresh_n, fresh_mismatch, truncated, workers)


_SHAPES = set()


def _merge(out, agg, digests, hist, viols, samples, harness):
    _SHAPES.update(out.get("shapes", []))
    agg.update(out["agg"])
    digests.update(out["digests"])
    for k, v in out["hist"].items():
        hist[k] = hist.get(k, False) or v
    viols.extend(out["viols"])
    if len(samples) < 3:
        samples.extend(out["samples"])
    harness.extend(out["harness"])


def finish(profile, tier, seed, nruns, t0, agg, digests, hist, viols, samples, harness, det, det_mismatch, fresh_n, fresh_mismatch, truncated, workers):
    prop = profile.prop
    known = profile.known
    exit_code = 0
    lines = []
    # --- violations
    unknown = {}
    knownseen = collections.Counter()
    for v in viols:
        if v["sig"] in known:
            knownseen[v["sig"]] += 1
        else:
            unknown.setdefault(v["sig"], []).append(v)
    for sig, n in sorted(knownseen.items()):
        lines.append(f"KNOWN-FINDING: property={prop} {sig} :: {known[sig]} (seen in {n} runs)")
    reported = 0
    cand = []
    for sig, vs in sorted(unknown.items()):
        v = next((x for x in vs if "ops" in x), None)
        if v is None:
            continue
        if len(cand) >= 10:
            lines.append(f"  (further signature not replayed: {sig}, runs: {len(vs)})")
            continue
        cand.append((sig, vs, v, write_replay(profile, seed, v)))
    with concurrent.futures.ThreadPoolExecutor(max_workers=8) as tp:
        oks = list(tp.map(lambda c: fresh_replay_ok(prop, c[3]), cand))
    for (sig, vs, v, path), ok in zip(cand, oks):
        note = ""
        if not ok and v.get("ops_full") is not None:
            # The minimised history fails only inside the worker that found it: the
            # violation depends on process-global state of the library left behind by
            # earlier steps (shrinking, done in that worker, dropped them). Fall back to
            # the complete history of the run, replayed in a fresh interpreter.
            v = dict(v, ops=v["ops_full"], step=v["step_full"], message=v["message_full"], digest=None)
            path = write_replay(profile, seed, v)
            ok = fresh_replay_ok(prop, path)
            note = " (depends on state the library keeps between operations)"
            if ok:
                # minimise again, this time with every candidate in a pristine forked child
                subprocess.run([os.path.join(VERIF, "check"), prop, "--minimise", path], capture_output=True, text=True, timeout=900, env=dict(os.environ, PYTHONHASHSEED="0"))
                ok = fresh_replay_ok(prop, path)
                try:
                    doc = json.load(open(path))
                    v = dict(v, ops=doc["ops"], step=doc["violation"]["step"], message=doc["violation"]["message"])
                except Exception:  # noqa: BLE001
                    pass
        if not ok:
            harness.append((v["run"], f"violation {sig} did not replay in a fresh interpreter: {path}"))
            continue
        sig = sig + note
        lines.append(f"  signature: {sig}  (runs: {len(vs)}, minimised to {len(v['ops'])} ops, step {v['step']})")
        lines.append(f"  message: {v['message'][:600]}")
        lines.append(f"VIOLATION property={prop} replay={path}")
        reported += 1
        exit_code = 1
    if det_mismatch or fresh_mismatch:
        harness.append((-1, f"NONDETERMINISM: runs {det_mismatch[:5]} (second process) {fresh_mismatch[:5]} (fresh interpreter)"))
    missing = [p for p in profile.required_probes if agg.get("probe/" + p, 0) == 0] if nruns >= 1000 else []
    if missing:
        harness.append((-1, f"reach probes at zero: {missing}"))
    if truncated:
        harness.append((-1, "wall-clock cap hit: coverage truncated"))
    if agg.get("runs", 0) < nruns and exit_code == 0 and not harness:
        harness.append((-1, f"only {agg.get('runs', 0)} of {nruns} runs completed"))
    if harness:
        for i, tb in harness[:5]:
            lines.append(f"HARNESS-ERROR run={i}: {tb.strip()[-1500:]}")
        if exit_code == 0:
            exit_code = 2
    wall = time.time() - t0
    nontriv = sum(1 for v in hist.values() if v)
    runs_done = agg.get("runs", 0)
    ev = {
        "property_id": prop,
        "tier": tier if tier in ("quick", "thorough") else "quick",
        "seed": int(seed),
        "level": profile.level,
        "wall_s": round(wall, 2),
        "violations": reported,
        "coverage": {
            "evaluations": int(runs_done),
            "distinct_nontrivial": int(nontriv),
            "rule": profile.rule,
            "samples": samples[:3] or [{"note": "no sample collected"}],
            "distinct_abstract_histories": len(hist),
            "distinct_final_states": len(_SHAPES),
            "final_state_measure": profile.state_measure,
            "simulated_steps": int(agg.get("steps", 0)),
            "simulated_time": "logical steps only: the system has no timers or clocks to advance (one HDF5 time stamp is shimmed to the step counter)",
            "runs_per_hour": int(runs_done / wall * 3600) if wall > 0 else 0,
            "workers": workers,
            "faults_injected": {k[6:]: v for k, v in sorted(agg.items()) if k.startswith("fault/")},
            "oracle_evaluations": {k[7:]: v for k, v in sorted(agg.items()) if k.startswith("oracle/")},
            "reach_probes": {k[6:]: v for k, v in sorted(agg.items()) if k.startswith("probe/")},
            "regression_cases_replayed": int(agg.get("regression_cases", 0)),
            "observed_only": {k[9:]: v for k, v in sorted(agg.items()) if k.startswith("observed/")},
            "op_counts": {k[3:]: v for k, v in sorted(agg.items()) if k.startswith("op/")},
            "determinism": {
                "runs_repeated_in_second_process": len(det),
                "mismatches": len(det_mismatch),
                "runs_repeated_in_fresh_interpreter_other_hashseed": fresh_n,
                "fresh_mismatches": len(fresh_mismatch),
            },
            "known_findings_seen": dict(knownseen),
            "real_components": profile.real_components,
            "stub_components": profile.stub_components,
            "truncated": truncated,
        },
        "assumptions": profile.assumptions,
    }
    # self-tests (mutants, other seeds) point the evidence elsewhere: evidence/ holds only runs against /repo itself
    evdir = os.environ.get("DSIM_EVIDENCE_DIR") or os.path.join(VERIF, "evidence")
    os.makedirs(evdir, exist_ok=True)
    with open(os.path.join(evdir, f"{prop}.json"), "w") as f:
        json.dump(ev, f, indent=1, default=_default)
    print(f"[{prop}/{profile.name}] tier={tier} seed={seed} runs={runs_done}/{nruns} steps={agg.get('steps', 0)} "
          f"distinct_histories={len(hist)} nontrivial={nontriv} wall={wall:.1f}s workers={workers}")
    print("  faults: " + canon(ev["coverage"]["faults_injected"]))
    print("  oracles: " + canon(ev["coverage"]["oracle_evaluations"]))
    print(f"  determinism: second-process {len(det)} runs / {len(det_mismatch)} mismatches; fresh interpreter {fresh_n} runs / {len(fresh_mismatch)} mismatches")
    for ln in lines:
        print(ln)
    if exit_code == 0:
        print(f"OK property={prop}")
    sys.stdout.flush()
    return exit_code
