"""Profiles `transform` (C13) and `rotate` (C12)."""
from .core import Profile, load_known
from .gen import Geo, draw_field_new, draw_mesh_spec, draw_region_spec, draw_reject, draw_rotate, draw_scale, draw_translate, draw_twin_spec
from .geom import MeshM
from .heap import HeapState
from . import ops_geom  # noqa: F401  (registers ops)
from . import ops_field  # noqa: F401  (F.call observation)
from .ops_geom import field_rot_refused

REAL = ["discretisedfield (all of it, from /repo working tree)", "numpy", "scipy", "h5py", "vtk", "pandas", "kernel tmpfs"]
STUBS_HEAP = ["none - heapsim calls the public API directly; the shadow heap (dsim.geom, dsim.heap) is the reference model"]


class HeapProfile(Profile):
    engine = "heapsim"
    predict = ("mesh", "array", "valid", "vdims", "mapping", "unit")
    invariants = True
    check_subs = True
    check_bc = True
    real_components = REAL
    stub_components = STUBS_HEAP
    state_measure = "final pool: multiset of handle kinds x sizes of the groups of handles sharing one mesh object x dimension counts"
    assumptions = [
        "sharing policy P1-P3 of DESIGN 5.2: in-place calls only on pool handles through their own public methods",
        "inputs stay at a decision margin from rounding-sensitive boundaries (DESIGN S2)",
        "a clean batch is evidence over the sampled histories, not a proof",
    ]

    def __init__(self):
        self.known = load_known(self.prop)
        self.df = None

    def tier_runs(self, tier):
        return {"quick": 6000, "thorough": 200000}[tier]

    def new_state(self, config, stats):
        if self.df is None:
            from .core import setup_sut

            self.df = setup_sut()
        return HeapState(self.df, config, stats, self.prop, self.predict, self.invariants, self.check_subs, self.check_bc)

    def simplify(self, o):
        """Simpler variants of one op record, for shrinking."""
        out = []
        if o.get("inplace") and o["op"] in ("translate", "scale", "rotate90") and "out" in o:
            out.append(dict(o, inplace=False))
        if o["op"] == "rotate90":
            if o.get("k") not in (1, 2):
                out.append(dict(o, k=o["k"] % 4))
                out.append(dict(o, k=1))
            if o.get("ref") is not None:
                out.append(dict(o, ref=None))
        if o["op"] == "scale":
            if o.get("ref") is not None:
                out.append(dict(o, ref=None))
            if isinstance(o.get("factor"), list):
                f = o["factor"]
                for cand in (2, -1, f[0]):
                    out.append({k: v for k, v in dict(o, factor=cand).items() if k != "farg"})
        if o["op"] == "translate" and "varg" in o:
            out.append({k: v for k, v in o.items() if k != "varg"})
        if o["op"] in ("Mesh.new",):
            if o.get("subs"):
                out.append(dict(o, subs=[]))
                if len(o["subs"]) > 1:
                    out.append(dict(o, subs=o["subs"][:1]))
            if o.get("bc"):
                out.append(dict(o, bc=""))
            if o.get("units") is not None:
                out.append(dict(o, units=None))
            if o.get("dims") is not None and o["dims"] in (["x"], ["x", "y"], ["x", "y", "z"]):
                out.append(dict(o, dims=None))
            if o.get("intcorners"):
                out.append({k: v for k, v in o.items() if k not in ("intcorners", "intsubs")})
        if o["op"] == "Region.new":
            if o.get("units") is not None:
                out.append(dict(o, units=None))
            if o.get("intcorners"):
                out.append({k: v for k, v in o.items() if k != "intcorners"})
        if o["op"] == "Field.new":
            if o.get("valid"):
                out.append(dict(o, valid=None))
            if o.get("unit"):
                out.append(dict(o, unit=None))
            if o.get("dtype"):
                out.append(dict(o, dtype=None))
            if o.get("value", {}).get("kind") != "idx":
                out.append(dict(o, value={"kind": "idx"}))
        return out


class TransformProfile(HeapProfile):
    """C13: histories over the full transformation alphabet on regions, meshes with
    subregions and fields, in place and copying, with rejected steps."""

    prop = "C13"
    name = "transform"
    methods = ("translate", "scale", "rotate90")
    required_probes = ("inplace_on_shared", "reject_then_ok")
    rule = (
        "one case = one seeded history (3-40 steps) of Region/Mesh/Field constructors, translate/scale/rotate90 in place or "
        "copying, and rejected (malformed/degenerate) steps over a pool of aliasing handles; distinct = distinct sequence of "
        "(op kind, in-place?, fault kind, outcome); non-trivial = at least 2 steps and at least one history/aliasing/fault "
        "oracle evaluation (invariants after a step, whole-heap refinement, in-place==copy, rejection atomicity)"
    )

    def _draw_config(self, rng):
        ndim = rng.choice([1, 2, 2, 3, 3, 3, 4])
        return {
            "ndim": ndim,
            "family": rng.choice(["dyadic", "dyadic", "nm"]),
            "steps": rng.randint(3, 40),
            "pool": rng.randint(3, 10),
            "p_inplace": rng.choice([0.0, 0.2, 0.5, 0.8]),
            "p_reject": rng.choice([0.0, 0.05, 0.15, 0.3]),
            "p_share": rng.choice([0.0, 0.4, 0.8]),
            "max_cells": rng.choice([12, 60, 300]),
            "max_subs": rng.choice([0, 1, 3]),
            "methods": sorted(rng.sample(list(self.methods), rng.randint(1 if len(self.methods) == 1 else 2, len(self.methods)))),
            "kinds": rng.choice(["RMF", "RMF", "MF", "R", "M", "F"]),
            "int_dtype": rng.random() < 0.25,
        }

    def gen_op(self, rng, st):
        cfg = st.cfg
        geo = st.extra.setdefault("geo", Geo(cfg["family"]))
        ndim = cfg["ndim"]
        out = st.next_slot
        if len(st.h) >= cfg["pool"]:
            victim = min(st.h)
            return {"op": "drop", "on": victim}
        kinds = cfg["kinds"]
        regions, meshes, fields = st.slots("R"), st.slots("M"), st.slots("F")
        want_new = []
        if "R" in kinds and not regions:
            want_new.append("R")
        if ("M" in kinds or "F" in kinds) and not meshes:
            want_new.append("M")
        if "F" in kinds and meshes and not fields:
            want_new.append("F")
        r = rng.random()
        if want_new or r < 0.12:
            what = want_new[0] if want_new else rng.choice([k for k in kinds])
            if what == "R":
                spec, _ = draw_region_spec(rng, geo, ndim)
                return dict(spec, op="Region.new", out=out)
            if what == "M" or not meshes:
                if cfg.get("bigmesh") and not st.extra.get("bigmesh_done") and ndim >= 2:
                    # one mesh above 2**16 cells whose cell count is no multiple of it (block-wise code paths, if any)
                    st.extra["bigmesh_done"] = True
                    st.stats.probe("big_mesh")
                    nb = {2: [300, 250], 3: [50, 40, 35], 4: [9, 8, 31, 33]}[ndim]
                    spec = draw_mesh_spec(rng, geo, ndim, 10**6, 0)
                    pmin = [min(a, b) for a, b in zip(spec["p1"], spec["p2"])]
                    spec.update(p1=pmin, p2=[a + k * geo.u for a, k in zip(pmin, nb)], n=nb, subs=[], bc="")
                    spec.pop("intcorners", None)
                    spec.pop("intsubs", None)
                    return dict(spec, op="Mesh.new", out=out)
                if meshes and rng.random() < 0.3:
                    st.stats.probe("twin_mesh")
                    return dict(draw_twin_spec(rng, st.h[rng.choice(meshes)].box.v), op="Mesh.new", out=out)
                spec = draw_mesh_spec(rng, geo, ndim, cfg["max_cells"], cfg["max_subs"])
                return dict(spec, op="Mesh.new", out=out)
            ms = rng.choice(meshes) if rng.random() < cfg["p_share"] or len(meshes) == 1 else meshes[-1]
            dts = (None, None, "float", "int") if cfg["int_dtype"] else (None, None, "float")
            return draw_field_new(rng, ms, out, st.h[ms].box.v, dtypes=dts)
        if fields and rng.random() < 0.08:
            # observation: sample the field at the centre / off-centre point of model cells,
            # i.e. g(R+Q(p-R)) = Q f(p) through the library's own point lookup
            from .profiles_field import draw_points

            s = rng.choice(fields)
            return {"op": "F.call", "on": s, "pts": draw_points(rng, st.h[s].box.v, rng.randint(1, 3)), "tuple": rng.random() < 0.3}
        if fields and rng.random() < 0.05:
            s = rng.choice(fields)
            nv = st.h[s].fm.nvdim
            if nv > 1:
                pool = {2: [["p", "q"], ["y", "x"], ["mx", "my"]], 3: [["y", "x", "z"], ["mx", "my", "mz"], ["p", "q", "r"]], 4: [["p", "q", "r", "s"]]}[nv]
                return {"op": "F.rename", "on": s, "vdims": rng.choice(pool)}
        cands = [s for s in st.h if st.h[s].kind in kinds]
        if not cands:
            cands = list(st.h)
        s = rng.choice(sorted(cands))
        h = st.h[s]
        m = h.box.v
        inplace = rng.random() < cfg["p_inplace"]
        methods = [x for x in cfg["methods"] if (h.kind != "F" or x == "rotate90")]
        if h.kind == "F" and "rotate90" not in cfg["methods"]:
            methods = ["rotate90"]
        reg = m.region if isinstance(m, MeshM) else m
        if reg.ndim < 2:
            methods = [x for x in methods if x != "rotate90"]
        if not methods:
            spec = draw_mesh_spec(rng, geo, ndim, cfg["max_cells"], cfg["max_subs"])
            return dict(spec, op="Mesh.new", out=out)
        if h.kind == "M" and m.subs and rng.random() < cfg["p_reject"] * 0.35:
            # extreme but well-formed arguments: 2**e cells away / 2**-e as factor, e around the 52
            # mantissa bits, where a one-cell subregion collapses by rounding and the region does not
            method = rng.choice(methods)
            ax = rng.randrange(reg.ndim)
            c = float(m.cell[ax])
            e = rng.randint(48, 58)
            far = [float(x) for x in reg.center]
            far[ax] += rng.choice([-1, 1]) * c * 2.0**e
            if method == "translate":
                v = [0.0] * reg.ndim
                v[ax] = rng.choice([-1, 1]) * c * 2.0**e
                o = {"op": "collapse", "on": s, "method": method, "args": [v], "kwargs": {}}
            elif method == "scale":
                o = {"op": "collapse", "on": s, "method": method, "args": [rng.choice([2.0**-e, 2.0, 0.5])], "kwargs": {}}
                if o["args"][0] in (2.0, 0.5) or rng.random() < 0.3:
                    o["kwargs"] = {"reference_point": far}
            elif reg.ndim >= 2 and not st.fields_on(h.box):
                a, b = rng.sample(list(reg.dims), 2)
                o = {"op": "collapse", "on": s, "method": method, "args": [a, b], "kwargs": {"k": rng.choice([1, 2, 3]), "reference_point": far}}
            else:
                o = None
            if o is not None:
                return dict(o, fault="rejected_args")
        if rng.random() < cfg["p_reject"]:
            unm = None
            if h.kind == "F" and h.fm.nvdim > 1:
                pairs = [(a, b) for a in reg.dims for b in reg.dims if a != b and field_rot_refused(h.fm, m, a, b)]
                if pairs and rng.random() < 0.7:
                    unm = rng.choice(pairs)
            if not (h.kind == "M" and st.fields_on(h.box) and methods == ["rotate90"]):
                o = draw_reject(rng, s, h.kind, reg, methods, inplace, unm)
                if o is not None:
                    return o
        if h.kind == "F" and rng.random() < 0.06:
            # a result derived from this field (it shares the field's mesh object): later in-place steps on either
            # must not reach the other
            st.stats.probe("derived_from_field")
            return rng.choice([{"op": "F.getnorm", "on": s, "what": "norm", "out": out}, {"op": "F.comp", "on": s, "i": rng.randrange(3), "out": out}])
        if h.kind in "RM" and "scale" in methods and rng.random() < 0.03:
            return {"op": "scale_extreme", "on": s, "e": rng.choice([-60, -55, 60, 40, -30])}
        method = rng.choice(methods)
        if method == "translate":
            return draw_translate(rng, geo, s, m, inplace, out)
        if method == "scale":
            return draw_scale(rng, geo, s, m, inplace, out)
        if h.kind == "M" and inplace and st.fields_on(h.box):
            inplace = False  # P3
        last = st.extra.get("last_rot")
        if h.kind == "F" and last is not None and last["on"] != s and rng.random() < 0.25:
            # the very same request again, on another field (same or equal geometry, other subregions, moved mesh ...)
            st.stats.probe("same_rotation_repeated")
            return dict(last, on=s, out=out)
        o = draw_rotate(rng, geo, s, m, inplace, out)
        if h.kind == "F":
            st.extra["last_rot"] = dict(o, inplace=False)
        if h.kind == "F" and field_rot_refused(h.fm, m, o["ax1"], o["ax2"]):
            pairs = [(a, b) for a in reg.dims for b in reg.dims if a != b and not field_rot_refused(h.fm, m, a, b)]
            if not pairs:
                return draw_reject(rng, s, h.kind, reg, ["rotate90"], inplace, (o["ax1"], o["ax2"]))
            o["ax1"], o["ax2"] = rng.choice(pairs)
            # the reference was drawn for the region, it stays valid for any axis pair
        return o


class RotateProfile(TransformProfile):
    """C12: rotation-only histories (2-4 d)."""

    prop = "C12"
    name = "rotate"
    methods = ("rotate90",)
    required_probes = ("reject_then_ok",)
    rule = (
        "one case = one seeded history (3-25 steps) of quarter-turn rotations (all ordered axis pairs, k in [-9,9], default or "
        "arbitrary reference) on regions, meshes with subregions and fields (permuted/partial component maps, random validity), "
        "in place and copying mixed, with refused steps; distinct = distinct sequence of (op kind, in-place?, fault kind, "
        "outcome); non-trivial = at least 2 steps and at least one history/aliasing/fault oracle evaluation"
    )

    def _draw_config(self, rng):
        cfg = super()._draw_config(rng)
        cfg["ndim"] = rng.choice([2, 2, 3, 3, 3, 4])
        cfg["steps"] = rng.randint(3, 25)
        cfg["methods"] = ["rotate90"]
        cfg["max_cells"] = rng.choice([12, 60, 200])
        cfg["kinds"] = rng.choice(["RMF", "F", "F", "MF", "R", "M"])
        if rng.random() < 0.02 and "F" in cfg["kinds"] and cfg["ndim"] >= 2:
            cfg.update(bigmesh=True, steps=min(cfg["steps"], 8), pool=4, p_reject=0.0)
        return cfg
