"""heapsim engine: a pool of live, aliasing library objects with an exact shadow heap.

DESIGN section 5.  Every op is a JSON record; executing a record never draws
randomness.  After every step: global invariants on every live handle, whole-heap
refinement against the shadows, and the step-specific oracles.
"""
import hashlib
import math
from fractions import Fraction as Fr

import numpy as np

from .core import HarnessError, Violation, sut
from .geom import EPS, MeshM, RegionM, cmp_mesh, cmp_region, fr

OPS = {}


def op(kind):
    def deco(fn):
        OPS[kind] = fn
        return fn

    return deco


class Box:
    """Mutable cell holding an immutable shadow; its identity mirrors the identity of
    the library object (e.g. one Mesh object shared by several fields)."""

    __slots__ = ("v", "steps")

    def __init__(self, v, steps=0):
        self.v = v
        self.steps = steps  # transformations applied so far (tolerance accounting)


class FieldM:
    __slots__ = ("nvdim", "array", "valid", "vdims", "mapping", "unit", "vtol")

    def __init__(self, nvdim, array, valid, vdims, mapping, unit, vtol=0.0):
        self.nvdim = nvdim
        self.array = array
        self.valid = valid
        self.vdims = None if vdims is None else list(vdims)
        self.mapping = dict(mapping)
        self.unit = unit
        self.vtol = vtol  # absolute tolerance on values accumulated by inexact steps

    def copy(self):
        return FieldM(self.nvdim, self.array.copy(), self.valid.copy(), self.vdims, self.mapping, self.unit, self.vtol)

    @staticmethod
    def adopt(obj):
        return FieldM(
            int(obj.nvdim),
            np.array(obj.array, copy=True),
            np.array(obj.valid, copy=True),
            obj.vdims,
            obj.vdim_mapping,
            obj.unit,
        )


class Handle:
    __slots__ = ("kind", "obj", "box", "fm", "meta")

    def __init__(self, kind, obj, box, fm=None, meta=None):
        self.kind = kind  # 'R' region, 'M' mesh, 'F' field, 'Q' rotator
        self.obj = obj
        self.box = box
        self.fm = fm
        self.meta = meta or {}

    @property
    def nsteps(self):
        return self.box.steps


def default_vdims(nvdim):
    if nvdim == 1:
        return None
    if nvdim <= 3:
        return ["x", "y", "z"][:nvdim]
    return [f"v{i}" for i in range(nvdim)]


def default_mapping(nvdim, vdims, dims):
    if nvdim == 1 or nvdim != len(dims):
        return {}
    return dict(zip(vdims, dims))


class HeapState:
    """Pool + shadow heap. ``predict`` is the set of field attributes the profile's
    property determines; everything else is adopted from the library."""

    def __init__(self, df, config, stats, prop, predict=("mesh", "array", "valid", "vdims", "mapping", "unit"), invariants=True, check_subs=True, check_bc=True):
        self.df = df
        self.cfg = config
        self.stats = stats
        self.prop = prop
        self.predict = set(predict)
        self.h = {}
        self.next_slot = 0
        self.M = 0.0  # largest coordinate magnitude touched in this run
        self.nsteps = 0
        self.invariants = invariants
        self.check_subs = check_subs
        self.check_bc = check_bc
        self.fs = None
        self.extra = {}

    # ---- bookkeeping -------------------------------------------------------------
    def touch(self, *vals):
        for v in vals:
            if v is None:
                continue
            if isinstance(v, (RegionM,)):
                self.M = max(self.M, v.maxabs())
            elif isinstance(v, MeshM):
                self.M = max(self.M, v.region.maxabs())
            elif isinstance(v, (list, tuple)):
                for x in v:
                    if isinstance(x, (int, float, Fr)) and not isinstance(x, bool):
                        self.M = max(self.M, abs(float(x)))
            elif isinstance(v, (int, float, Fr)):
                self.M = max(self.M, abs(float(v)))

    def atol(self, m, nsteps=0):
        """Coordinate tolerance for comparing a library object with model m (App. B)."""
        reg = m.region if isinstance(m, MeshM) else m
        if isinstance(m, MeshM):
            mc = float(min(m.cell))
        else:
            mc = float(min(reg.edges))
        return Fr(1e-9 * mc + 256 * EPS * max(self.M, reg.maxabs()) * (nsteps + 1))

    def add(self, kind, obj, box, fm=None, meta=None, slot=None):
        if slot is None:
            raise HarnessError("op without out slot")
        self.h[slot] = Handle(kind, obj, box, fm, meta)
        self.next_slot = max(self.next_slot, slot + 1)
        if isinstance(box.v, (RegionM, MeshM)):
            self.touch(box.v)
        return self.h[slot]

    def has(self, slot, kind=None):
        h = self.h.get(slot)
        return h is not None and (kind is None or h.kind in kind)

    def slots(self, kind):
        return [s for s, h in sorted(self.h.items()) if h.kind in kind]

    def fields_on(self, box):
        return [s for s, h in self.h.items() if h.kind == "F" and h.box is box]

    def sharers(self, box, but=None):
        return [s for s, h in self.h.items() if h.box is box and s != but]

    # ---- engine --------------------------------------------------------------------
    def apply(self, o):
        kind = o["op"]
        fn = OPS.get(kind)
        if fn is None:
            raise HarnessError(f"unknown op {kind}")
        for key in ("on", "a", "b", "src"):
            if key in o and isinstance(o[key], int) and o[key] not in self.h:
                return "skipped"
        self.nsteps += 1
        self.stats.hit("op/" + kind)
        self.extra["cur_op"] = o
        outcome = fn(self, o)
        if outcome == "skipped":
            return outcome
        self.check_heap()
        return outcome or "ok"

    def final_ops(self):
        return []

    def shape(self):
        """Abstract final state: multiset of handle kinds, sharing-graph shape (how many
        handles sit on each shared shadow), dimension count and cell-count class."""
        kinds = "".join(sorted(h.kind for h in self.h.values()))
        boxes = {}
        for h in self.h.values():
            boxes[id(h.box)] = boxes.get(id(h.box), 0) + 1
        sharing = tuple(sorted(v for v in boxes.values() if v > 1))
        nd = sorted({(h.box.v.region.ndim if hasattr(h.box.v, "region") and not hasattr(h.box.v, "ndim") else getattr(h.box.v, "ndim", 0)) for h in self.h.values() if h.kind in "RMF"})
        return f"{kinds}|{sharing}|{nd}"

    def close(self):
        if self.fs is not None:
            self.fs.close()
            self.fs = None

    def digest(self):
        """Digest of the *library* objects' state (what could be nondeterministic)."""
        hs = hashlib.sha256()
        for s, h in sorted(self.h.items()):
            hs.update(f"{s}{h.kind}".encode())
            try:
                if h.kind == "R":
                    _dig_region(hs, h.obj)
                elif h.kind == "M":
                    _dig_mesh(hs, h.obj)
                elif h.kind == "F":
                    _dig_mesh(hs, h.obj.mesh)
                    hs.update(np.ascontiguousarray(h.obj.array).tobytes())
                    hs.update(np.ascontiguousarray(h.obj.valid).tobytes())
                    hs.update(repr((h.obj.vdims, sorted(h.obj.vdim_mapping.items()), h.obj.unit)).encode())
                elif h.kind == "Q":
                    f = h.obj.field
                    _dig_mesh(hs, f.mesh)
                    hs.update(np.ascontiguousarray(f.array).tobytes())
            except Exception as e:  # noqa: BLE001 - broken object state is digested as such
                hs.update(repr(type(e)).encode())
        return hs.hexdigest()[:24]

    # ---- oracles after every step ----------------------------------------------------
    def check_heap(self):
        for s, h in sorted(self.h.items()):
            if self.invariants:
                self.check_invariants(s, h)
            self.check_refines(s, h)

    def check_invariants(self, s, h):
        st = self.stats
        if h.kind == "R":
            inv_region(h.obj, f"handle {s} region", self.prop)
            st.oracle("H")
        elif h.kind == "M":
            inv_mesh(h.obj, f"handle {s} mesh", self.prop, subs=self.check_subs)
            st.oracle("H")
        elif h.kind == "F":
            inv_field(h.obj, f"handle {s} field", self.prop, subs=self.check_subs)
            st.oracle("H")

    def check_refines(self, s, h):
        if h.kind == "R":
            bad = cmp_region(h.obj, h.box.v, self.atol(h.box.v, h.nsteps), f"handle {s}")
        elif h.kind == "M":
            bad = cmp_mesh(h.obj, h.box.v, self.atol(h.box.v, h.nsteps), f"handle {s}", subs=self.check_subs, bc=self.check_bc)
        elif h.kind == "F":
            bad = self.cmp_field(h.obj, h, f"handle {s}")
        else:
            return
        self.stats.oracle("A")
        if bad:
            raise Violation("refine.heap", "; ".join(bad[:6]), preds=[h.kind, _cls(bad[0])], kind="A")

    def cmp_field(self, obj, h, what):
        fm = h.fm
        P = self.predict
        out = []
        if "mesh" in P:
            out += cmp_mesh(obj.mesh, h.box.v, self.atol(h.box.v, h.nsteps), what + ".mesh", subs=self.check_subs, bc=self.check_bc)
        if obj.nvdim != fm.nvdim:
            out.append(f"{what}.nvdim={obj.nvdim} model={fm.nvdim}")
        if "array" in P:
            a = np.asarray(obj.array)
            if a.shape != fm.array.shape:
                out.append(f"{what}.array.shape={a.shape} model={fm.array.shape}")
            else:
                ok = arrays_equal(a, fm.array, fm.vtol)
                if not ok:
                    idx = first_diff(a, fm.array, fm.vtol)
                    out.append(f"{what}.array differs at {idx}: {a[idx]!r} model={fm.array[idx]!r} (vtol {fm.vtol:.3g})")
        if "valid" in P:
            v = np.asarray(obj.valid)
            if v.shape != fm.valid.shape:
                out.append(f"{what}.valid.shape={v.shape} model={fm.valid.shape}")
            elif not np.array_equal(v.astype(bool), fm.valid):
                idx = tuple(np.argwhere(v.astype(bool) != fm.valid)[0])
                out.append(f"{what}.valid differs at {idx}: {v[idx]!r} model={fm.valid[idx]!r}")
        if "vdims" in P:
            ov = None if obj.vdims is None else list(obj.vdims)
            if ov != fm.vdims:
                out.append(f"{what}.vdims={ov} model={fm.vdims}")
        if "mapping" in P:
            if dict(obj.vdim_mapping) != fm.mapping:
                out.append(f"{what}.vdim_mapping={dict(obj.vdim_mapping)} model={fm.mapping}")
        if "unit" in P:
            if obj.unit != fm.unit:
                out.append(f"{what}.unit={obj.unit!r} model={fm.unit!r}")
        return out


def _cls(msg):
    """Coarse class of a mismatch message for the signature."""
    for key in (".valid", ".array", ".n=", ".subregions", ".units", ".dims", ".pmin", ".pmax", ".vdims", ".vdim_mapping", ".unit=", ".bc", ".nvdim", "ndim", "non-real"):
        if key in msg:
            return key.strip(".=")
    return "other"


def arrays_equal(a, b, tol=0.0):
    if a.shape != b.shape:
        return False
    if tol == 0.0:
        return bool(np.array_equal(a, b, equal_nan=True)) if a.dtype.kind in "fc" or b.dtype.kind in "fc" else bool(np.array_equal(a, b))
    return bool(np.all((np.abs(a - b) <= tol) | ((a != a) & (b != b))))


def first_diff(a, b, tol=0.0):
    if tol == 0.0:
        bad = ~((a == b) | ((a != a) & (b != b)))
    else:
        bad = ~((np.abs(a - b) <= tol) | ((a != a) & (b != b)))
    w = np.argwhere(bad)
    return tuple(int(i) for i in w[0]) if len(w) else None


def _dig_region(hs, r):
    hs.update(np.asarray(r.pmin).astype(complex).tobytes())
    hs.update(np.asarray(r.pmax).astype(complex).tobytes())
    hs.update(repr((tuple(r.dims), tuple(r.units))).encode())


def _dig_mesh(hs, m):
    _dig_region(hs, m.region)
    hs.update(np.asarray(m.n).tobytes())
    hs.update(repr(m.bc).encode())
    for k, s in m.subregions.items():
        hs.update(k.encode())
        _dig_region(hs, s)


# --------------------------------------------------------------------------------------
# global invariants (C13 / C14), evaluated on the library objects alone
# --------------------------------------------------------------------------------------
def inv_region(r, what, prop):
    pmin, pmax = np.asarray(r.pmin), np.asarray(r.pmax)
    if not (np.isrealobj(pmin) and np.isrealobj(pmax)):
        raise Violation("invariant.real_corners", f"{what}: corner dtype {pmin.dtype}", preds=["R"], kind="H")
    if pmin.shape != pmax.shape or pmin.ndim != 1:
        raise Violation("invariant.corner_shape", f"{what}: pmin {pmin.shape} pmax {pmax.shape}", kind="H")
    if not np.all(pmin < pmax):
        raise Violation("invariant.pmin_lt_pmax", f"{what}: pmin={pmin.tolist()} pmax={pmax.tolist()}", kind="H")
    nd = len(pmin)
    if len(r.dims) != nd or len(r.units) != nd:
        raise Violation("invariant.dims_units_len", f"{what}: ndim={nd} dims={r.dims} units={r.units}", kind="H")
    if len(set(r.dims)) != nd:
        raise Violation("invariant.dims_unique", f"{what}: dims={r.dims}", kind="H")


def inv_mesh(m, what, prop, subs=True):
    inv_region(m.region, what + ".region", prop)
    n = np.asarray(m.n)
    if n.shape != (m.region.ndim,) or n.dtype.kind not in "iu" or not np.all(n > 0):
        raise Violation("invariant.n_positive_int", f"{what}: n={n!r}", kind="H")
    cell = np.asarray(m.cell)
    edges = np.asarray(m.region.edges)
    if not np.all(np.abs(cell * n - edges) <= 4 * EPS * np.abs(edges)):
        raise Violation("invariant.cell_times_n", f"{what}: cell*n={cell * n} edges={edges}", kind="H")
    if subs:
        inv_subregions(m, what, prop)


def inv_subregions(m, what, prop):
    """C14: inside, whole cells, on the lattice, mesh's dims and units."""
    pmin = [Fr(float(x)) for x in m.region.pmin]
    pmax = [Fr(float(x)) for x in m.region.pmax]
    n = [int(i) for i in m.n]
    cell = [(b - a) / k for a, b, k in zip(pmin, pmax, n)]
    mx = max(max(abs(x) for x in pmin), max(abs(x) for x in pmax))
    for name, s in m.subregions.items():
        inv_region(s, f"{what}.subregions[{name!r}]", prop)
        if tuple(s.dims) != tuple(m.region.dims) or tuple(s.units) != tuple(m.region.units):
            raise Violation(
                "invariant.sub_dims_units",
                f"{what}.subregions[{name!r}] dims/units {s.dims}/{s.units} mesh {m.region.dims}/{m.region.units}",
                kind="H",
            )
        for i in range(len(n)):
            tol = cell[i] / 1000 + Fr(1e-9) * mx  # far below the quarter-cell offsets a wrong map produces
            a, b = Fr(float(s.pmin[i])), Fr(float(s.pmax[i]))
            if a < pmin[i] - tol or b > pmax[i] + tol:
                raise Violation("invariant.sub_inside", f"{what}.subregions[{name!r}] axis {i}: [{float(a)},{float(b)}] outside [{float(pmin[i])},{float(pmax[i])}]", kind="H")
            for x in (a, b):
                q = (x - pmin[i]) / cell[i]
                if abs(q - round(q)) * cell[i] > tol:
                    raise Violation("invariant.sub_lattice", f"{what}.subregions[{name!r}] axis {i}: corner {float(x)} is {float(q)} cells from pmin", kind="H")
            if b - a < cell[i] - tol:
                raise Violation("invariant.sub_whole_cells", f"{what}.subregions[{name!r}] axis {i}: extent {float(b - a)} < cell {float(cell[i])}", kind="H")


def inv_field(f, what, prop, subs=True):
    inv_mesh(f.mesh, what + ".mesh", prop, subs=subs)
    n = tuple(int(i) for i in f.mesh.n)
    a = np.asarray(f.array)
    if a.shape != (*n, f.nvdim):
        raise Violation("invariant.array_shape", f"{what}: array.shape={a.shape} but (*n, nvdim)={(*n, f.nvdim)}", kind="H")
    v = np.asarray(f.valid)
    if v.shape != n:
        raise Violation("invariant.valid_shape", f"{what}: valid.shape={v.shape} n={n}", kind="H")
    if v.dtype != np.bool_:
        raise Violation("invariant.valid_bool", f"{what}: valid.dtype={v.dtype}", kind="H")


# --------------------------------------------------------------------------------------
# helpers shared by op modules
# --------------------------------------------------------------------------------------
def make_array(spec):
    """Deterministic array from a JSON spec (never uses the run PRNG)."""
    kind = spec["kind"]
    shape = tuple(spec["shape"])
    dt = spec.get("dtype", "f8")
    size = math.prod(shape)
    if kind == "lit":
        return np.array(spec["data"], dtype=dt).reshape(shape)
    if kind == "idx":
        # unique value per cell and component, x-fastest numbering; never cancels
        # under transposition or reflection
        base = np.arange(1, size + 1, dtype="f8").reshape(shape)
        a = base * spec.get("step", 1.0) + spec.get("offset", 0.0)
    elif kind == "rint":
        r = np.random.default_rng(spec["seed"])
        a = r.integers(spec.get("lo", -8), spec.get("hi", 9), size=shape).astype("f8") * spec.get("step", 1.0)
    elif kind == "rand":
        r = np.random.default_rng(spec["seed"])
        a = r.standard_normal(shape) * spec.get("scale", 1.0)
    elif kind == "mask":
        r = np.random.default_rng(spec["seed"])
        m = r.random(shape) < spec.get("p", 0.6)
        if spec.get("special") == "single" and m.size:
            m[...] = False
            m.reshape(-1)[int(r.integers(m.size))] = True  # exactly one valid cell
        return m
    elif kind == "const":
        a = np.full(shape, spec["value"], dtype="f8")
    else:
        raise HarnessError(f"array kind {kind}")
    if dt == "c16":
        r = np.random.default_rng(spec.get("seed", 0) + 77)
        a = a + 1j * r.integers(-4, 5, size=shape)
    return a.astype(dt)


def expect_ok(res, what, prop_kind="value", preds=()):
    if res.raised:
        raise Violation("unexpected_exception", f"{what} raised {type(res.e).__name__}: {str(res.e)[:300]}", preds=[type(res.e).__name__, *preds], kind=prop_kind)
    return res.v


def expect_raise(res, what, preds=()):
    if not res.raised:
        raise Violation("not_rejected", f"{what} was accepted (returned {type(res.v).__name__}) but must be rejected", preds=preds, kind="F")
