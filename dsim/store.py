"""storesim engine (DESIGN section 6): writers, readers and foreign peers around a faulty
store. One StoreState per run; ops are JSON records; the model maps every path to the
last completed write (format, representation, options, field shadow, expected
subregions, damage state)."""
import gc
import math
import os
from fractions import Fraction as Fr

import numpy as np

from . import peers
from .core import HarnessError, SimCrash, Violation, sut
from .geom import EPS, MeshM, RegionM, cmp_region, frs
from .heap import make_array
from .ops_geom import mk_mesh
from .simfs import SimFS

OPS = {}
_ADDR = __import__("re").compile(rb"Array 0x[0-9a-fA-F]+")


def op(kind):
    def deco(fn):
        OPS[kind] = fn
        return fn

    return deco


class FieldS:
    """Shadow of one in-memory field (value semantics)."""

    __slots__ = ("mesh", "nvdim", "array", "valid", "vdims", "unit", "dtype_kind", "intcorners")

    def __init__(self, mesh, nvdim, array, valid, vdims, unit, intcorners=False):
        self.mesh = mesh
        self.nvdim = nvdim
        self.array = array
        self.valid = valid
        self.vdims = vdims
        self.unit = unit
        self.dtype_kind = array.dtype.kind
        self.intcorners = intcorners


class PathM:
    __slots__ = ("fmt", "rep", "opts", "fs", "subs", "damage", "layout", "foreign", "n_writes", "subtol")

    def __init__(self, fmt, rep, opts, fs, subs, layout=None, foreign=None):
        self.fmt = fmt
        self.rep = rep
        self.opts = opts
        self.fs = fs  # FieldS as written (before projection)
        self.subs = subs  # expected subregions on read: list[(name, RegionM)] (None = not judged)
        self.damage = None  # None | ('cut', where, c) | ('flip',)
        self.layout = layout
        self.foreign = foreign
        self.n_writes = 1
        self.subtol = None


def value_array(spec, shape):
    kind = spec["kind"]
    if kind == "wide":
        r = np.random.default_rng(spec["seed"])
        emax = spec.get("emax", 300)
        a = (r.random(shape) * 2 - 1) * 10.0 ** r.integers(-emax, emax + 1, size=shape)
        flat = a.reshape(-1)
        specials = spec.get("specials", [])
        for i, v in enumerate(specials):
            flat[(i * 7 + 3) % flat.size] = v
        return a
    if kind == "zeros":
        r = np.random.default_rng(spec["seed"])
        return np.where(r.random(shape) < 0.5, 0.0, -0.0)  # the sign bit is part of "bit-identical"
    return make_array(dict(spec, shape=list(shape)))


class StoreState:
    def __init__(self, df, config, stats, prop):
        self.df = df
        self.cfg = config
        self.stats = stats
        self.prop = prop
        self.fs = SimFS(df)
        self.f = {}  # slot -> (obj, FieldS)
        self.paths = {}  # rel -> PathM
        self.nsteps = 0
        self.next_slot = 0
        self.ncopy = 0
        self._done = set()
        try:
            from vtkmodules.vtkCommonCore import vtkObject

            vtkObject.GlobalWarningDisplayOff()
        except Exception:  # noqa: BLE001
            pass
        os.environ["UBERMAG_DISCRETISEDFIELD_VERIF_OVF_CHUNK"] = str(config.get("chunk", 100000))

    def extra_done(self, key):
        return key in self._done

    def mark_done(self, key):
        self._done.add(key)

    def apply(self, o):
        fn = OPS.get(o["op"])
        if fn is None:
            raise HarnessError(f"unknown store op {o['op']}")
        if "src" in o and o["src"] not in self.f:
            return "skipped"
        self.nsteps += 1
        self.stats.hit("op/" + o["op"])
        return fn(self, o) or "ok"

    def final_ops(self):
        """Recovery phase (DESIGN 6.4): faults are off; every damaged path is written
        again and must read back; then every path is read once more."""
        ops = []
        for rel, pm in sorted(self.paths.items()):
            if pm.damage is not None and pm.foreign is None and self.f:
                ops.append({"op": "write", "src": min(self.f), "path": rel, "fmt": pm.fmt, "rep": pm.rep, "opts": pm.opts, "phase": "recovery"})
        for rel in sorted(self.paths):
            ops.append({"op": "read", "path": rel, "phase": "recovery"})
        return ops

    def shape(self):
        """Abstract final state of the store: per path (format, representation, damage
        class, number of writes capped at 3, has subregions, foreign)."""
        return "|".join(sorted(f"{pm.fmt}/{pm.rep}/{pm.damage[0] + ':' + str(pm.damage[1]) if pm.damage else 'ok'}/{min(pm.n_writes, 3)}/{bool(pm.subs)}/{bool(pm.foreign)}" for pm in self.paths.values()))

    def digest(self):
        import hashlib

        hs = hashlib.sha256()
        for rel in sorted(os.listdir(self.fs.root)):
            hs.update(rel.encode())
            data = self.fs.read_bytes(rel)
            if rel.endswith((".h5", ".hdf5")):
                # HDF5 bytes contain nothing nondeterministic once the clock is shimmed,
                # but h5py may lay out free space differently; digest the size only
                hs.update(str(len(data)).encode())
            elif rel.endswith(".vtk") and data[:1] == b"<":
                # VTK's XML writer names the unnamed coordinate arrays after their
                # memory address ("Array 0x55ed..."); mask that, it is not content
                hs.update(_ADDR.sub(b"Array 0x", data))
            else:
                hs.update(data)
        return hs.hexdigest()[:24]

    def close(self):
        self.f.clear()
        self.fs.close()


# --------------------------------------------------------------------------------------
# field construction
# --------------------------------------------------------------------------------------
def apply_pre(df, mesh_obj, mm, pre):
    """Short in-place history on the mesh before the field is created (C10)."""
    for step in pre or []:
        if step["m"] == "translate":
            mesh_obj.translate(step["v"], inplace=True)
            mm = mm.translate(step["v"])
        elif step["m"] == "scale":
            mesh_obj.scale(step["factor"], inplace=True)
            mm = mm.scale(step["factor"])
        elif step["m"] == "rotate90":
            mesh_obj.rotate90(step["ax1"], step["ax2"], k=step["k"], inplace=True)
            ia, ib = mm.region.dims.index(step["ax1"]), mm.region.dims.index(step["ax2"])
            mm = mm.rotate90(ia, ib, step["k"])
    return mm


@op("mkfield")
def op_mkfield(st, o):
    df = st.df
    spec = o["mesh"]
    res = sut(mk_mesh, df, spec)
    if res.raised:
        raise HarnessError(f"mkfield: mesh construction failed: {res.e!r}")
    mesh_obj, mm = res.v
    res = sut(apply_pre, df, mesh_obj, mm, o.get("pre"))
    if res.raised:
        raise Violation("unexpected_exception", f"in-place history before saving raised {res.e!r}", preds=["pre"], kind="H")
    mm = res.v
    if o.get("pre"):
        # what is written is the object's own (rounded) geometry; that the in-place history
        # realises its exact map is C13's business, not the store's
        from .ops_field import adopt_mesh

        mm = adopt_mesh(mesh_obj)
    nvdim = o["nvdim"]
    arr = value_array(o["value"], (*mm.n, nvdim))
    dt = o.get("dtype")
    if dt == "int":
        arr = np.rint(np.clip(arr, -1e9, 1e9)).astype(np.int64)
        if o.get("bigint"):
            # integers that no float64 can hold: "values bit-identical" includes them
            flat = arr.reshape(-1)
            flat[::5] = 2**53 + 1 + 2 * np.arange(len(flat[::5]), dtype=np.int64)
            flat[1::7] = -(2**62) + 3
    elif dt == "complex":
        r = np.random.default_rng(o["value"].get("seed", 1) + 5)
        arr = arr.astype(np.complex128) + 1j * r.integers(-9, 10, size=arr.shape)
    valid = make_array(dict(o["valid"], shape=list(mm.n))) if o.get("valid") else np.ones(mm.n, dtype=bool)
    kw = dict(nvdim=nvdim, value=arr.copy())
    if o.get("valid"):
        kw["valid"] = valid.copy()  # otherwise the constructor's own default (True) is exercised
    if o.get("mapping") is not None and nvdim > 1 and len(o["mapping"]["perm"]) == nvdim and sorted(o["mapping"]["order"]) == list(range(nvdim)):
        names = list(o["vdims"]) if o.get("vdims") is not None else (["x", "y", "z"][:nvdim] if nvdim <= 3 else [f"v{i}" for i in range(nvdim)])
        dims = list(mm.region.dims)
        mp = {names[i]: (dims[t] if 0 <= t < len(dims) else None) for i, t in enumerate(o["mapping"]["perm"][:nvdim])}
        kw["vdim_mapping"] = {names[i]: mp[names[i]] for i in o["mapping"]["order"] if i < nvdim}
    if o.get("vdims") is not None:
        kw["vdims"] = list(o["vdims"])
    if o.get("unit") is not None:
        kw["unit"] = o["unit"]
    if dt is not None:
        kw["dtype"] = {"int": np.int64, "float": np.float64, "complex": np.complex128}[dt]
    res = sut(df.Field, mesh_obj, **kw)
    if res.raised:
        raise HarnessError(f"mkfield: Field construction failed: {res.e!r}")
    obj = res.v
    vdims = o.get("vdims")
    if vdims is None and nvdim > 1:
        vdims = ["x", "y", "z"][:nvdim] if nvdim <= 3 else [f"v{i}" for i in range(nvdim)]
    if not hasattr(st, "mk"):
        st.mk = {}
    st.mk[o["out"]] = {k: v for k, v in o.items() if k != "op"}
    st.f[o["out"]] = (obj, FieldS(mm, nvdim, np.array(obj.array, copy=True), valid.astype(bool), vdims, o.get("unit"), bool(spec.get("intcorners"))))
    st.next_slot = max(st.next_slot, o["out"] + 1)
    return "ok"


@op("mkvariant")
def op_mkvariant(st, o):
    """A second field on the SAME geometry that differs in one attribute (tolerance
    factor, integer vs float corners, bc, subregions, unit): files of such twins must
    not be confused with each other by anything that remembers earlier reads."""
    src = st.mk.get(o["src"]) if hasattr(st, "mk") else None
    if src is None:
        return "skipped"
    spec = dict(src, out=o["out"], mesh=dict(src["mesh"]))
    m = spec["mesh"]
    ch = o["change"]
    if ch == "tol":
        m["tol"] = o["tol"]
    elif ch == "corners":
        if not all(float(x).is_integer() for x in m["p1"] + m["p2"]) or spec.get("pre"):
            return "skipped"
        m["intcorners"] = not m.get("intcorners")
        m["intsubs"] = bool(m["intcorners"]) and all(float(x).is_integer() for _, a, b in m.get("subs", []) for x in a + b)
    elif ch == "bc":
        m["bc"] = "" if m.get("bc") else "neumann"
    elif ch == "subs":
        m["subs"] = m.get("subs", [])[:-1] if m.get("subs") else []
        if not src["mesh"].get("subs"):
            return "skipped"
    elif ch == "subs_moved":
        # the same names, one border moved by a single cell (a difference far below any absolute tolerance
        # at nanometre scale): the files of the two fields differ only in that corner of the side-car / table
        if not src["mesh"].get("subs") or spec.get("pre") or m.get("intcorners"):
            return "skipped"
        pmin = [min(a, b) for a, b in zip(m["p1"], m["p2"])]
        pmax = [max(a, b) for a, b in zip(m["p1"], m["p2"])]
        cell = [(b - a) / k for a, b, k in zip(pmin, pmax, m["n"])]
        subs = [[nm, list(lo), list(hi)] for nm, lo, hi in m["subs"]]
        nm, lo, hi = subs[o.get("which", 0) % len(subs)]
        lo, hi = [min(a, b) for a, b in zip(lo, hi)], [max(a, b) for a, b in zip(lo, hi)]
        ax = o.get("ax", 0) % len(lo)
        if hi[ax] + 0.5 * cell[ax] < pmax[ax]:
            hi[ax] = hi[ax] + cell[ax]
        elif lo[ax] - 0.5 * cell[ax] > pmin[ax]:
            lo[ax] = lo[ax] - cell[ax]
        elif hi[ax] - lo[ax] > 1.5 * cell[ax]:
            hi[ax] = hi[ax] - cell[ax]
        else:
            return "skipped"
        subs[o.get("which", 0) % len(subs)] = [nm, lo, hi]
        m["subs"] = subs
    elif ch == "unit":
        spec["unit"] = None if spec.get("unit") else "T"
    st.stats.probe("twin_field")
    return op_mkfield(st, spec)


@op("dropfield")
def op_dropfield(st, o):
    st.f.pop(o["src"], None)


@op("restart")
def op_restart(st, o):
    """The process restarts: every in-memory handle is gone, only the store survives."""
    keep = max(st.f) if st.f else None
    spec = st.f.get(keep)
    st.f.clear()
    gc.collect()
    st.stats.fault("restart")
    return "restart"


# --------------------------------------------------------------------------------------
# writing
# --------------------------------------------------------------------------------------
def _sidecar(rel):
    return rel + ".subregions.json"


def ovf_layout(fs_log_writes, nvals, nbytes):
    """Byte layout of a binary OVF file from the write log of a complete write."""
    header = fs_log_writes[0][3]
    return {"header": header, "check": header + nbytes, "data": header + nbytes + nvals * nbytes, "size": sum(w[3] for w in fs_log_writes),
            "chunks": [w[2] for w in fs_log_writes[2:-2]]}


def resolve_cut(where, layout, rep):
    """Resolve a symbolic cut position against the layout of the complete file."""
    h, c, d, size = layout["header"], layout["check"], layout["data"], layout["size"]
    kind = where["at"]
    if kind == "abs":
        return max(0, min(size - 1, where["c"]))
    if kind == "header":
        return int(where["frac"] * h)
    if kind == "header_end":
        return h + where.get("delta", 0)
    if kind == "check":
        return h + int(where["frac"] * (c - h))
    if kind == "data":
        return c + int(where["frac"] * (d - c))
    if kind == "chunk_edge":
        ch = layout["chunks"] or [c]
        return max(c, min(d - 1, ch[where["k"] % len(ch)] + where.get("delta", 0)))
    if kind == "data_end":
        return d + where.get("delta", -1)
    if kind == "tail":
        return d + int(where["frac"] * (size - d))
    raise HarnessError(f"cut kind {kind}")


def classify_cut(c, layout):
    if c < layout["header"]:
        return "header"
    if c < layout["check"]:
        return "check"
    if c < layout["data"]:
        return "data"
    return "tail"


def lib_write(st, obj, rel, fmt, rep, opts):
    kw = {}
    if fmt == "ovf":
        kw = dict(representation=rep, extend_scalar=bool(opts.get("extend_scalar")), save_subregions=opts.get("save_subregions", True))
    elif fmt == "vtk":
        kw = dict(save_subregions=opts.get("save_subregions", True))
        if rep != "default":  # to_file's default representation ("bin8") is the binary form
            kw["representation"] = rep
    return sut(obj.to_file, st.fs.path(rel), **kw)


def can_write(fs_, fmt, opts):
    """Whether the format can hold this field at all (format restrictions, not faults)."""
    if fmt in ("ovf", "vtk") and fs_.mesh.region.ndim != 3:
        return False
    if fmt == "ovf" and (len(set(fs_.mesh.region.units)) != 1 or fs_.dtype_kind == "c"):
        return False
    if fmt == "vtk" and fs_.dtype_kind == "c":
        return False
    return True


@op("write")
def op_write(st, o):
    obj, fsh = st.f[o["src"]]
    rel, fmt, rep, opts = o["path"], o["fmt"], o.get("rep"), o.get("opts") or {}
    if not can_write(fsh, fmt, opts):
        return "skipped"
    old = st.paths.get(rel)
    if old is not None:
        st.stats.probe("path_reuse")
        if old.fmt != fmt or old.rep != rep:
            st.stats.probe("path_reuse_other_representation")
        if fmt in ("ovf", "vtk") and old.subs and not fsh.mesh.subs:
            st.stats.probe("stale_sidecar_candidate")
            st.stats.fault("stale_sidecar")
    fault = o.get("fault")
    layout = None
    if fmt == "ovf" and rep in ("bin4", "bin8"):
        nb = 4 if rep == "bin4" else 8
        nvals = math.prod(fsh.mesh.n) * (3 if opts.get("extend_scalar") and fsh.nvdim == 1 else fsh.nvdim)
    if fault and fault["kind"] == "torn" and fmt == "ovf":
        # dry run to a scratch name to learn the layout, then the real, torn write
        scratch = "scratch.ovf"
        mark = len(st.fs.log)
        res = lib_write(st, obj, scratch, fmt, rep, dict(opts, save_subregions=False))
        if res.raised:
            raise Violation("unexpected_exception", f"to_file({fmt},{rep}) raised {res.e!r}", preds=[fmt, type(res.e).__name__], kind="S")
        ws = st.fs.writes_of(scratch, mark)
        if rep in ("bin4", "bin8"):
            layout = ovf_layout(ws, nvals, nb)
        else:
            size = sum(w[3] for w in ws)
            layout = {"header": ws[0][3], "check": ws[0][3], "data": size - ws[-1][3], "size": size, "chunks": []}
        st.fs.delete(scratch)
        c = resolve_cut(fault["where"], layout, rep)
        c = max(0, min(layout["size"] - 1, c))
        how = fault.get("how", "crash")
        st.fs.crash_plan[rel] = (c, how)
        crashed = False
        try:
            res = lib_write(st, obj, rel, fmt, rep, opts)
        except SimCrash:
            crashed = True
        if how == "enospc":
            # disk full: the writer gets an OSError at byte c and the process lives on. What
            # to_file does with it is not stated by any property (tallied); the file is torn
            # exactly like after a crash, and the recovery phase writes the path again.
            if crashed or st.fs.size(rel) != c:
                raise HarnessError(f"disk-full write at {c}: crashed={crashed} size={st.fs.size(rel)}")
            st.stats.hit("observed/enospc:" + ("raised-" + type(res.e).__name__ if res.raised else "swallowed"))
            st.stats.fault("disk_full")
        else:
            if not crashed:
                raise HarnessError(f"torn write at {c} of {layout['size']} did not crash")
            st.stats.fault("torn_write")
        where = classify_cut(c, layout)
        st.stats.probe("cut_in_" + where)
        if how == "enospc":
            st.stats.probe("disk_full_write")
        if layout["chunks"] and len(layout["chunks"]) > 1:
            st.stats.probe("multi_chunk_write")
        pm = PathM(fmt, rep, opts, fsh, _expected_subs(old, fsh, opts), layout)
        pm.damage = ("cut", where, c)
        st.paths[rel] = pm
        return f"{'full' if how == 'enospc' else 'torn'}:{where}"
    mark = len(st.fs.log)
    res = lib_write(st, obj, rel, fmt, rep, opts)
    if res.raised:
        raise Violation("unexpected_exception", f"to_file({fmt},{rep},{opts}) raised {type(res.e).__name__}: {str(res.e)[:300]}", preds=[fmt, type(res.e).__name__], kind="S")
    if fmt == "ovf" and rep in ("bin4", "bin8"):
        ws = st.fs.writes_of(rel, mark)
        layout = ovf_layout(ws, nvals, nb)
        if len(layout["chunks"]) > 1:
            st.stats.probe("multi_chunk_write")
        if layout["size"] != st.fs.size(rel):
            raise HarnessError("write log does not add up to the file size")
    pm = PathM(fmt, rep, opts, fsh, _expected_subs(old, fsh, opts), layout)
    if old is not None:
        pm.n_writes = old.n_writes + 1
    if fmt == "hdf5":
        pm.subtol = {k: sr.tolerance_factor for k, sr in obj.mesh.subregions.items()}
    st.paths[rel] = pm
    return "written"


@op("write_rejected")
def op_write_rejected(st, o):
    """A write the format must refuse (field is not 3-d, mixed mesh units, unknown
    representation). It is not a completed write: the path keeps its previous content,
    side-car included (checked by the following reads and the recovery phase)."""
    obj, fsh = st.f[o["src"]]
    rel, fmt, why = o["path"], o["fmt"], o["why"]
    pm = st.paths.get(rel)
    if pm is None or pm.foreign is not None:
        return "skipped"
    rep = o.get("rep")
    if why == "ndim" and fsh.mesh.region.ndim == 3:
        return "skipped"
    if why == "units" and (fmt != "ovf" or fsh.mesh.region.ndim != 3 or len(set(fsh.mesh.region.units)) == 1):
        return "skipped"
    if why == "rep":
        rep = "bin5"
        if not can_write(fsh, fmt, {}):
            return "skipped"
    res = lib_write(st, obj, rel, fmt, rep, o.get("opts") or {})
    st.stats.fault("rejected_write")
    if not res.raised:
        # not a clause of C09/C16; the path no longer has a modelled content
        del st.paths[rel]
        st.fs.delete(rel)
        st.fs.delete(_sidecar(rel))
        return "accepted-unmodelled"
    st.stats.probe("rejected_write_over_existing" + ("_with_subregions" if pm.subs else ""))
    return "write-rejected"


@op("mutate_loaded")
def op_mutate_loaded(st, o):
    """The caller changes, through the public in-place API, the mesh of a field it got FROM A
    FILE (translate / scale in place, new subregions, other bc) and drops the field. What the file
    holds is untouched: every later read of that (or an equal) file still returns the stored state."""
    obj, fsh = st.f[o["src"]]
    mesh = obj.mesh
    how = o["how"]
    nd = fsh.mesh.region.ndim
    cell = [float(c) for c in fsh.mesh.cell]
    if how == "translate":
        res = sut(mesh.translate, [3 * c for c in cell], inplace=True)
    elif how == "scale":
        res = sut(mesh.scale, 2.0, inplace=True)
    elif how == "subs":
        pmin = [float(x) for x in fsh.mesh.region.pmin]
        res = sut(setattr, mesh, "subregions", {"changed": st.df.Region(p1=pmin, p2=[a + c for a, c in zip(pmin, cell)], dims=list(fsh.mesh.region.dims), units=list(fsh.mesh.region.units))} if not fsh.mesh.subs else {})
    else:
        dims1 = [d for d in fsh.mesh.region.dims if len(d) == 1]
        res = sut(setattr, mesh, "bc", "neumann" if fsh.mesh.bc != "neumann" else (dims1[0] if dims1 else ""))
    del st.f[o["src"]]
    st.stats.probe("loaded_mesh_changed_by_caller")
    return "mutated" if not res.raised else "mutation-refused"


@op("write_poison")
def op_write_poison(st, o):
    """A write that fails MIDWAY (HDF5 refuses a unit with an embedded NUL after the mesh has been
    written). No property says what the path holds afterwards (removed from the model); what must
    still work is the next write to that name and its read-back (recovery: progress once faults stop)."""
    obj, fsh = st.f[o["src"]]
    rel = o["path"]
    res = sut(lambda: obj.__class__(obj.mesh, nvdim=obj.nvdim, value=obj.array, unit="A\x00m", vdims=obj.vdims, valid=obj.valid))
    if res.raised:
        return "skipped"
    res = sut(res.v.to_file, st.fs.path(rel))
    st.stats.fault("failed_write")
    st.stats.hit("observed/hdf5_write_with_nul_unit:" + ("raised" if res.raised else "accepted"))
    st.paths.pop(rel, None)
    if not res.raised:
        st.fs.delete(rel)
    st.stats.probe("write_failed_midway")
    return "write-failed" if res.raised else "accepted-unmodelled"


@op("plant_sidecar")
def op_plant_sidecar(st, o):
    """A subregion side-car from another era or tool lies next to an HDF5 file (the
    legacy layout kept subregions there). HDF5 files carry their own subregions: the
    read-back is unaffected."""
    obj, fsh = st.f[o["src"]]
    rel = o["path"]
    pm = st.paths.get(rel)
    if pm is None or pm.fmt != "hdf5" or pm.foreign is not None or not fsh.mesh.subs:
        return "skipped"
    res = sut(obj.mesh.save_subregions, st.fs.path(rel))
    if res.raised:
        raise HarnessError(f"save_subregions failed: {res.e!r}")
    st.stats.fault("stale_sidecar")
    st.stats.probe("stale_sidecar_next_to_hdf5")
    return "planted"


def _expected_subs(old, fsh, opts):
    if opts.get("save_subregions", True) is False:
        return []  # generator guarantees no side-car is on disk for this path
    return list(fsh.mesh.subs)


# --------------------------------------------------------------------------------------
# reading and the projections (DESIGN 6.2)
# --------------------------------------------------------------------------------------
def _cmp_corners(g, mm, what):
    atol = Fr(1e-12 * float(min(mm.cell)))
    out = []
    pmin, pmax = np.asarray(g.mesh.region.pmin, dtype=float), np.asarray(g.mesh.region.pmax, dtype=float)
    if pmin.shape != (mm.region.ndim,):
        return [f"{what}: ndim {pmin.shape}"]
    for i in range(mm.region.ndim):
        if abs(Fr(float(pmin[i])) - mm.region.pmin[i]) > atol:
            out.append(f"{what} pmin[{i}]={pmin[i]!r} written={float(mm.region.pmin[i])!r}")
        if abs(Fr(float(pmax[i])) - mm.region.pmax[i]) > atol:
            out.append(f"{what} pmax[{i}]={pmax[i]!r} written={float(mm.region.pmax[i])!r}")
    n = tuple(int(i) for i in g.mesh.n)
    if n != mm.n:
        out.append(f"{what} n={n} written={mm.n}")
    return out


def _cmp_subs(g, subs, mm, what, dims_units=True):
    out = []
    names = list(g.mesh.subregions)
    want = [k for k, _ in subs]
    if names != want:
        return [f"{what} subregions {names} expected {want}"]
    atol = Fr(1e-12 * float(min(mm.cell)))
    for k, s in subs:
        r = g.mesh.subregions[k]
        for i in range(mm.region.ndim):
            if abs(Fr(float(r.pmin[i])) - s.pmin[i]) > atol or abs(Fr(float(r.pmax[i])) - s.pmax[i]) > atol:
                out.append(f"{what} subregion {k!r} corners {np.asarray(r.pmin).tolist()},{np.asarray(r.pmax).tolist()} written {[float(x) for x in s.pmin]},{[float(x) for x in s.pmax]}")
                break
    return out


def project_ovf_values(pm):
    a = pm.fs.array.astype("f8")
    if pm.opts.get("extend_scalar") and pm.fs.nvdim == 1:
        a = np.concatenate([a, np.zeros_like(a), np.zeros_like(a)], axis=-1)
    return a


def check_read_ovf(st, g, pm):
    fsh = pm.fs
    mm = fsh.mesh
    bad = _cmp_corners(g, mm, "read-back")
    u = mm.region.units[0]
    if tuple(g.mesh.region.units) != (u, u, u):
        bad.append(f"mesh unit {tuple(g.mesh.region.units)} written {u!r}")
    want = project_ovf_values(pm)
    if g.nvdim != want.shape[-1]:
        bad.append(f"nvdim {g.nvdim} written {want.shape[-1]}")
    elif not bad:
        got = np.asarray(g.array)
        if got.shape != want.shape:
            bad.append(f"array shape {got.shape} written {want.shape}")
        elif pm.rep == "bin8":
            if got.astype("f8").tobytes() != want.tobytes():
                idx = tuple(np.argwhere(got.astype("f8").view("u8") != want.view("u8"))[0])
                bad.append(f"bin8 value not bit-identical at {idx}: {got[idx]!r} written {want[idx]!r}")
        elif pm.rep == "bin4":
            w4 = want.astype("<f4").astype("f8")
            if not np.array_equal(got, w4, equal_nan=True):
                idx = tuple(np.argwhere(~((got == w4) | ((got != got) & (w4 != w4))))[0])
                bad.append(f"bin4 value at {idx}: {got[idx]!r} float32(written)={w4[idx]!r}")
        else:
            ok = np.abs(got - want) <= 1e-9 * np.abs(want)
            if not ok.all():
                idx = tuple(np.argwhere(~ok)[0])
                bad.append(f"txt value at {idx}: {got[idx]!r} written {want[idx]!r}")
    if g.unit != fsh.unit:
        bad.append(f"unit {g.unit!r} written {fsh.unit!r}")
    if fsh.nvdim > 1:
        gv = None if g.vdims is None else list(g.vdims)
        if gv != list(fsh.vdims):
            bad.append(f"vdims {gv} written {fsh.vdims}")
    if pm.subs is not None:
        bad += _cmp_subs(g, pm.subs, mm, "read-back")
    return bad


def check_read_hdf5(st, g, pm):
    fsh = pm.fs
    mm = fsh.mesh
    bad = _cmp_corners(g, mm, "read-back")
    if tuple(g.mesh.region.dims) != mm.region.dims:
        bad.append(f"dims {tuple(g.mesh.region.dims)} written {mm.region.dims}")
    if tuple(g.mesh.region.units) != mm.region.units:
        bad.append(f"units {tuple(g.mesh.region.units)} written {mm.region.units}")
    kind = np.asarray(g.mesh.region.pmin).dtype.kind
    if (kind in "iu") != bool(fsh.intcorners):
        bad.append(f"corner dtype {np.asarray(g.mesh.region.pmin).dtype} written as {'integer' if fsh.intcorners else 'float'} corners")
    if g.mesh.region.tolerance_factor != mm.region.tol:
        bad.append(f"tolerance_factor {g.mesh.region.tolerance_factor!r} written {mm.region.tol!r}")
    if g.mesh.bc != mm.bc:
        bad.append(f"bc {g.mesh.bc!r} written {mm.bc!r}")
    bad += _cmp_subs(g, list(mm.subs), mm, "read-back")
    for k, t in (getattr(pm, "subtol", None) or {}).items():
        if k in g.mesh.subregions and g.mesh.subregions[k].tolerance_factor != t:
            bad.append(f"subregion {k!r} tolerance_factor {g.mesh.subregions[k].tolerance_factor!r} written {t!r}")
    if g.nvdim != fsh.nvdim:
        bad.append(f"nvdim {g.nvdim} written {fsh.nvdim}")
    gv = None if g.vdims is None else list(g.vdims)
    if gv != (None if fsh.vdims is None else list(fsh.vdims)):
        bad.append(f"vdims {gv} written {fsh.vdims}")
    if g.unit != fsh.unit:
        bad.append(f"unit {g.unit!r} written {fsh.unit!r}")
    got = np.asarray(g.array)
    if got.shape != fsh.array.shape:
        bad.append(f"array shape {got.shape} written {fsh.array.shape}")
    else:
        if (got.dtype.kind == "c") != (fsh.array.dtype.kind == "c"):
            bad.append(f"array kind {got.dtype} written {fsh.array.dtype}")
        w = fsh.array.astype(got.dtype) if got.dtype.kind == fsh.array.dtype.kind or fsh.array.dtype.kind in "iu" else fsh.array
        if got.dtype.kind in "fc" and fsh.array.dtype.kind in "fc":
            same = got.tobytes() == np.ascontiguousarray(fsh.array).astype(got.dtype).tobytes()
        elif got.dtype.kind == "f" and fsh.array.dtype.kind in "iu":
            # an integer field may come back with another dtype (adopted), but with the same VALUES:
            # compared as integers, never through a rounding conversion of the written values
            with np.errstate(all="ignore"):
                same = bool(np.all(np.isfinite(got)) and np.all(np.abs(got) < 2.0**63) and np.array_equal(got.astype(np.int64), fsh.array))
        else:
            same = np.array_equal(got, fsh.array)
        if not same:
            bad.append("array values differ from what was written")
    v = np.asarray(g.valid)
    if v.shape != fsh.valid.shape or v.dtype != np.bool_ or not np.array_equal(v, fsh.valid):
        bad.append(f"valid differs (dtype {v.dtype}, shape {v.shape})")
    return bad


def check_read_vtk(st, g, pm):
    fsh = pm.fs
    mm = fsh.mesh
    txt = pm.rep == "txt"
    bad = []
    atol_rel = 1e-9 if txt else 0.0
    pmin, pmax = np.asarray(g.mesh.region.pmin, dtype=float), np.asarray(g.mesh.region.pmax, dtype=float)
    scale = max(mm.region.maxabs(), 1e-300)
    for i in range(3):
        for nm, got, want in (("pmin", pmin[i], mm.region.pmin[i]), ("pmax", pmax[i], mm.region.pmax[i])):
            tol = Fr(atol_rel * scale) + Fr(1e-12 * float(min(mm.cell))) if txt else 0  # "exactly for binary and XML"
            if abs(Fr(float(got)) - want) > tol:
                bad.append(f"{nm}[{i}]={got!r} written={float(want)!r}")
    n = tuple(int(i) for i in g.mesh.n)
    if n != mm.n:
        bad.append(f"n={n} written={mm.n}")
        return bad
    if g.nvdim != fsh.nvdim:
        bad.append(f"nvdim {g.nvdim} written {fsh.nvdim}")
        return bad
    got = np.asarray(g.array, dtype=float)
    want = fsh.array.astype(float)
    if txt:
        ok = np.abs(got - want) <= 1e-9 * np.abs(want)
    else:
        ok = got == want
    if not ok.all():
        idx = tuple(np.argwhere(~ok)[0])
        bad.append(f"value at {idx}: {got[idx]!r} written {want[idx]!r}")
    v = np.asarray(g.valid)
    if v.shape != fsh.valid.shape or not np.array_equal(v.astype(bool), fsh.valid):
        bad.append("validity differs from what was written")
    if fsh.nvdim > 1 or fsh.vdims is not None:
        gv = None if g.vdims is None else list(g.vdims)
        if gv != list(fsh.vdims):
            bad.append(f"vdims {gv} written {fsh.vdims}")
    if pm.subs is not None:
        bad += _cmp_subs(g, pm.subs, mm, "read-back")
    return bad


CHECK_READ = {"ovf": check_read_ovf, "hdf5": check_read_hdf5, "vtk": check_read_vtk}


@op("read")
def op_read(st, o):
    rel = o["path"]
    pm = st.paths.get(rel)
    if pm is None:
        return "skipped"
    res = sut(st.df.Field.from_file, st.fs.path(rel))
    st.stats.oracle("S")
    if pm.damage is not None:
        kind = pm.damage[0]
        judged = pm.fmt == "ovf" and pm.rep in ("bin4", "bin8")
        if kind == "flip":
            if not res.raised:
                raise Violation("damaged.accepted", f"{rel}: binary OVF with corrupted check value ({pm.damage[1]}) was read without error", preds=["flip", pm.rep] + (["foreign"] if pm.foreign else []), kind="F")
            st.stats.oracle("F")
            return "rejected"
        where = pm.damage[1]
        if not judged:
            # no property speaks about these; a damaged VTK file can come back with
            # uninitialised memory, so the content is not even looked at
            outcome = "raised" if res.raised else "returned"
            if not res.raised and pm.fmt != "vtk":
                st.stats.hit(f"observed/{pm.fmt}-{pm.rep}-cut-{where}:" + ("equal" if not CHECK_READ[pm.fmt](st, res.v, pm) else "different"))
            st.stats.hit(f"observed/{pm.fmt}-{pm.rep}-cut-{where}:{outcome}")
            return "observed:" + outcome
        st.stats.oracle("F")
        if where in ("header", "check", "data"):
            if not res.raised:
                raise Violation("damaged.accepted", f"{rel}: binary OVF cut at byte {pm.damage[2]} (inside {where}; layout {pm.layout}) was read without error", preds=["cut", where, pm.rep] + (["foreign"] if pm.foreign else []), kind="F")
            return "rejected"
        # cut after the complete data block: exception or the complete, equal field
        if res.raised:
            return "rejected"
        bad = check_read_ovf(st, res.v, pm) if pm.foreign is None else check_foreign(st, res.v, pm)
        if bad:
            raise Violation("damaged.wrong_field", f"{rel}: file cut in the footer at {pm.damage[2]} read as a different field: " + "; ".join(bad[:4]), preds=["cut", where, pm.rep] + (["foreign"] if pm.foreign else []), kind="F")
        return "read-complete"
    if res.raised:
        extra = []
        if pm.fmt == "vtk" and pm.rep == "txt" and pm.subs and pm.foreign is None and _long_coordinates(pm):
            # recorded finding: the text form keeps ~11 digits of the grid coordinates, the side-car keeps
            # the subregion corners exactly; the rebuilt mesh then refuses its own subregions
            extra = ["txt-long-coordinates"]
        raise Violation(
            "read.raised",
            f"from_file({rel}) [{pm.fmt}/{pm.rep} {pm.opts}, write #{pm.n_writes} to this path{', foreign ' + str(pm.foreign) if pm.foreign else ''}] raised {type(res.e).__name__}: {str(res.e)[:300]}",
            preds=[pm.fmt, type(res.e).__name__, "foreign" if pm.foreign else "own", "reused" if pm.n_writes > 1 else "fresh"] + extra,
            kind="S",
        )
    bad = CHECK_READ[pm.fmt](st, res.v, pm) if pm.foreign is None else check_foreign(st, res.v, pm)
    if bad:
        raise Violation(
            "read.differs",
            f"from_file({rel}) [{pm.fmt}/{pm.rep} {pm.opts}, write #{pm.n_writes}{', foreign ' + str(pm.foreign) if pm.foreign else ''}]: " + "; ".join(bad[:5]),
            preds=[pm.fmt, _cls(bad[0]), "foreign" if pm.foreign else "own", "reused" if pm.n_writes > 1 else "fresh"],
            kind="S",
        )
    if o.get("phase") == "recovery":
        st.stats.probe("recovery_read")
    if o.get("keep") is not None:
        st.f[o["keep"]] = (res.v, pm.fs)
        st.next_slot = max(st.next_slot, o["keep"] + 1)
    return "read-ok"


def _long_coordinates(pm):
    """Whether some corner of the mesh or of a subregion needs more than ten significant digits."""
    mm = pm.fs.mesh
    xs = [float(x) for x in list(mm.region.pmin) + list(mm.region.pmax)] + [float(x) for _, sr in (pm.subs or []) for x in list(sr.pmin) + list(sr.pmax)]
    return any(float("%.10g" % x) != x for x in xs)


def _cls(msg):
    for key in ("subregion", "unit", "vdims", "value", "valid", "pmin", "pmax", " n=", "nvdim", "dims", "tolerance", "bc", "array"):
        if key in msg:
            return key.strip(" =")
    return "other"


# --------------------------------------------------------------------------------------
# faults on stored bytes, store history
# --------------------------------------------------------------------------------------
@op("flip_check")
def op_flip_check(st, o):
    rel = o["path"]
    pm = st.paths.get(rel)
    if pm is None or pm.fmt != "ovf" or pm.rep not in ("bin4", "bin8") or pm.damage is not None or pm.layout is None:
        return "skipped"
    data = bytearray(st.fs.read_bytes(rel))
    h, c = pm.layout["header"], pm.layout["check"]
    nb = c - h
    how = o["how"]
    if how["kind"] == "bits":
        before = bytes(data[h:c])
        for b in how["bits"]:
            b %= nb * 8
            data[h + b // 8] ^= 1 << (b % 8)
        if bytes(data[h:c]) == before:
            return "skipped"  # two flips of the same bit (after reduction modulo the width): nothing was damaged
    elif how["kind"] == "swapped":
        # the right number in the byte order of the other OVF version (2.0 is little-endian, 1.0 big-endian):
        # read in the order the file declares it is a wrong check value
        before = bytes(data[h:c])
        data[h:c] = before[::-1]
        if bytes(data[h:c]) == before:
            return "skipped"
        st.stats.probe("check_value_byte_swapped")
    else:
        import struct

        val = {"nan": float("nan"), "inf": float("inf"), "zero": 0.0, "other": 1234567.0 if nb == 8 else 123456789012345.0, "neg": -(1234567.0 if nb == 4 else 123456789012345.0)}[how["kind"]]
        end = ">" if pm.foreign is not None and pm.foreign.get("version") == 1 else "<"
        data[h:c] = struct.pack(end + ("f" if nb == 4 else "d"), val)
    st.fs.write_bytes(rel, bytes(data))
    pm.damage = ("flip", str(how))
    st.stats.fault("flip_check")
    if pm.foreign is not None:
        st.stats.probe("damaged_foreign_file")
    return "flipped"


@op("truncate")
def op_truncate(st, o):
    """The tail of a complete file is lost (same bytes as a crash of the writer there)."""
    rel = o["path"]
    pm = st.paths.get(rel)
    if pm is None or pm.damage is not None or (pm.foreign is not None and pm.layout is None):
        return "skipped"
    size = st.fs.size(rel)
    if pm.foreign is not None:
        st.stats.probe("damaged_foreign_file")
    if pm.layout is not None:
        c = max(0, min(size - 1, resolve_cut(o["where"], pm.layout, pm.rep)))
        where = classify_cut(c, pm.layout)
    else:
        c = int(o["where"].get("frac", 0.5) * size)
        where = "file"
    st.fs.truncate(rel, c)
    pm.damage = ("cut", where, c)
    st.stats.fault("torn_write" if pm.layout is not None else "truncate_observed")
    st.stats.probe("cut_in_" + where)
    return f"truncated:{where}"


@op("lose_sidecar")
def op_lose_sidecar(st, o):
    rel = o["path"]
    pm = st.paths.get(rel)
    if pm is None or pm.fmt not in ("ovf", "vtk") or not st.fs.exists(_sidecar(rel)):
        return "skipped"
    st.fs.delete(_sidecar(rel))
    pm.subs = []
    st.stats.fault("lost_sidecar")
    return "lost"


@op("copy")
def op_copy(st, o):
    rel, to = o["path"], o["to"]
    pm = st.paths.get(rel)
    if pm is None:
        return "skipped"
    if o.get("over"):
        # another program replaces an existing file (cp / mv over it): the path now holds the
        # other file's content; nothing the package remembers about the old file applies any more
        old = st.paths.get(to)
        if old is None or to == rel or old.fmt != pm.fmt:
            return "skipped"
        st.fs.delete(_sidecar(to))
        st.stats.probe("file_replaced_behind_the_package")
    elif to in st.paths or st.fs.exists(to) or st.fs.exists(_sidecar(to)):
        return "skipped"
    st.fs.copy(rel, to)
    npm = PathM(pm.fmt, pm.rep, pm.opts, pm.fs, pm.subs, pm.layout, pm.foreign)
    npm.damage = pm.damage
    npm.subtol = pm.subtol
    if pm.fmt in ("ovf", "vtk"):
        if o.get("with_sidecar") and st.fs.exists(_sidecar(rel)):
            st.fs.copy(_sidecar(rel), _sidecar(to))
        else:
            npm.subs = []
            if pm.subs:
                st.stats.fault("lost_sidecar")
    if o.get("over"):
        npm.n_writes = st.paths[to].n_writes + 1
    st.paths[to] = npm
    return "replaced" if o.get("over") else "copied"


@op("delete")
def op_delete(st, o):
    rel = o["path"]
    if rel not in st.paths:
        return "skipped"
    st.fs.delete(rel)
    st.fs.delete(_sidecar(rel))
    del st.paths[rel]
    res = sut(st.df.Field.from_file, st.fs.path(rel))
    if not res.raised:
        raise Violation("read.ghost", f"from_file({rel}) returned a field after the file was deleted", kind="S")
    return "deleted"


# --------------------------------------------------------------------------------------
# foreign peers
# --------------------------------------------------------------------------------------
@op("foreign_write")
def op_foreign_write(st, o):
    rel = o["path"]
    if rel in st.paths or st.fs.exists(rel) or st.fs.exists(_sidecar(rel)):
        return "skipped"
    spec = o["mesh"]
    mm = MeshM(RegionM(spec["p1"], spec["p2"]), spec["n"])
    nvdim = o["nvdim"]
    arr = value_array(o["value"], (*mm.n, nvdim)).astype("f8")
    pmin, pmax = [float(x) for x in mm.region.pmin], [float(x) for x in mm.region.pmax]
    kind = o["dialect"]["kind"]
    fsh = FieldS(mm, nvdim, arr, np.ones(mm.n, dtype=bool), o.get("vdims"), o.get("unit"))
    if kind == "ovf":
        d = o["dialect"]
        if d["rep"] == "bin4":
            arr = arr.astype("f4").astype("f8")
            fsh.array = arr
        layout = peers.write_foreign_ovf(st.fs.path(rel), d, pmin, pmax, mm.n, arr, labels=o.get("labels"), unit=o.get("unit") or "A/m", meshunit=o.get("meshunit", "m"))
        pm = PathM("ovf", d["rep"], {}, fsh, [], layout, foreign=d)
    elif kind == "hdf5-legacy":
        # the old writer stored the two corners as the user had given them: either order per axis
        sw = o.get("swap") or [False, False, False]
        p1 = [b if w else a for a, b, w in zip(pmin, pmax, sw)]
        p2 = [a if w else b for a, b, w in zip(pmin, pmax, sw)]
        if any(sw):
            st.stats.probe("legacy_unsorted_corners")
        peers.write_legacy_hdf5(st.fs.path(rel), p1, p2, mm.n, arr)
        pm = PathM("hdf5", None, {}, fsh, [], None, foreign=o["dialect"])
    elif kind == "vtk-legacy":
        peers.write_legacy_vtk(st.fs.path(rel), pmin, pmax, mm.n, arr)
        pm = PathM("vtk", "txt", {}, fsh, [], None, foreign=o["dialect"])
    else:
        raise HarnessError(kind)
    st.paths[rel] = pm
    st.stats.probe("foreign_" + kind)
    return "foreign-written"


def check_foreign(st, g, pm):
    """A foreign file is read to that writer's content: mesh, component count, values
    (and, for OVF 2.0, simple labels and the unit)."""
    fsh = pm.fs
    mm = fsh.mesh
    kind = pm.foreign["kind"]
    bad = []
    pmin, pmax = np.asarray(g.mesh.region.pmin, dtype=float), np.asarray(g.mesh.region.pmax, dtype=float)
    scale = mm.region.maxabs()
    tol = Fr(1e-9 * float(min(mm.cell))) + Fr(16 * EPS * scale)
    for i in range(3):
        if kind == "vtk-legacy" and mm.n[i] == 1:
            # the point-data layout holds one coordinate for a single-cell axis: the cell
            # size is not in the file, only the position of the cell centre is
            c = (Fr(float(pmin[i])) + Fr(float(pmax[i]))) / 2
            if abs(c - (mm.region.pmin[i] + mm.region.pmax[i]) / 2) > tol:
                bad.append(f"region axis {i}: centre {float(c)!r} foreign writer's point {float((mm.region.pmin[i] + mm.region.pmax[i]) / 2)!r}")
            continue
        if abs(Fr(float(pmin[i])) - mm.region.pmin[i]) > tol or abs(Fr(float(pmax[i])) - mm.region.pmax[i]) > tol:
            bad.append(f"region axis {i}: [{pmin[i]!r},{pmax[i]!r}] foreign writer's [{float(mm.region.pmin[i])!r},{float(mm.region.pmax[i])!r}]")
    n = tuple(int(i) for i in g.mesh.n)
    if n != mm.n:
        bad.append(f"n={n} foreign n={mm.n}")
        return bad
    if g.nvdim != fsh.nvdim:
        bad.append(f"nvdim {g.nvdim} foreign {fsh.nvdim}")
        return bad
    got = np.asarray(g.array, dtype=float)
    if kind == "ovf" and pm.foreign["rep"] == "txt" or kind == "vtk-legacy":
        ok = np.abs(got - fsh.array) <= 1e-9 * np.abs(fsh.array)
    else:
        ok = got == fsh.array
    if not ok.all():
        idx = tuple(np.argwhere(~ok)[0])
        bad.append(f"value at {idx}: {got[idx]!r} foreign {fsh.array[idx]!r}")
    if kind == "ovf" and pm.foreign["version"] == 2:
        if fsh.vdims is not None and (None if g.vdims is None else list(g.vdims)) != list(fsh.vdims):
            bad.append(f"vdims {g.vdims} foreign labels {fsh.vdims}")
        if fsh.unit is not None and g.unit != fsh.unit:
            bad.append(f"unit {g.unit!r} foreign {fsh.unit!r}")
    if kind == "ovf" and pm.foreign["version"] == 1:
        # an OVF 1.0 file carries `valueunit` and no labels: whatever the reader makes of
        # that, it cannot be a unit or labels the writer never wrote
        if g.unit not in (None, fsh.unit):
            bad.append(f"unit {g.unit!r} is not in the file (the foreign writer wrote valueunit {fsh.unit!r})")
        if g.vdims is not None and list(g.vdims) != ["x", "y", "z"]:
            bad.append(f"vdims {list(g.vdims)} are not in the file (OVF 1.0 has no labels)")
    return bad


@op("indep_read")
def op_indep_read(st, o):
    """The independent OVF 2.0 reader decodes the written file to the same mesh and the
    same x-fastest data."""
    rel = o["path"]
    pm = st.paths.get(rel)
    if pm is None or pm.fmt != "ovf" or pm.damage is not None or pm.foreign is not None:
        return "skipped"
    data = st.fs.read_bytes(rel)
    st.stats.oracle("S")
    try:
        dec = peers.parse_ovf2(data)
    except peers.OvfParseError as e:
        raise Violation("format.ovf2", f"{rel} [{pm.rep} {pm.opts}]: independent OVF 2.0 reader cannot decode the file: {e}", preds=[pm.rep, "parse"], kind="S") from None
    fsh = pm.fs
    mm = fsh.mesh
    hdr = dec["header"]
    bad = []
    if dec["n"] != mm.n:
        bad.append(f"nodes {dec['n']} mesh n {mm.n}")
    want = project_ovf_values(pm)
    if dec["dim"] != want.shape[-1]:
        bad.append(f"valuedim {dec['dim']} expected {want.shape[-1]}")
    cell = mm.cell
    tol = lambda c: Fr(1e-12 * float(c))  # noqa: E731
    for i, k in enumerate("xyz"):
        try:
            vals = {f: Fr(float(hdr[k + f])) for f in ("base", "stepsize", "min", "max")}
        except (KeyError, ValueError) as e:
            bad.append(f"header field missing/unparsable: {e}")
            continue
        if abs(vals["base"] - (mm.region.pmin[i] + cell[i] / 2)) > tol(cell[i]) + Fr(4 * EPS * mm.region.maxabs()):
            bad.append(f"{k}base={float(vals['base'])!r} but pmin+cell/2={float(mm.region.pmin[i] + cell[i] / 2)!r}")
        if abs(vals["stepsize"] - cell[i]) > tol(cell[i]) + Fr(4 * EPS * float(mm.region.edges[i])):
            bad.append(f"{k}stepsize={float(vals['stepsize'])!r} but cell={float(cell[i])!r}")
        if abs(vals["min"] - mm.region.pmin[i]) > tol(cell[i]) or abs(vals["max"] - mm.region.pmax[i]) > tol(cell[i]):
            bad.append(f"{k}min/{k}max={float(vals['min'])!r},{float(vals['max'])!r} but region {float(mm.region.pmin[i])!r},{float(mm.region.pmax[i])!r}")
    nl, nu = len(hdr.get("valuelabels", "").split()), len(hdr.get("valueunits", "").split())
    if nl != dec["dim"]:
        bad.append(f"{nl} valuelabels for valuedim {dec['dim']}")
    if nu not in (1, dec["dim"]):
        bad.append(f"{nu} valueunits for valuedim {dec['dim']}")
    if hdr.get("meshunit") != mm.region.units[0]:
        bad.append(f"meshunit {hdr.get('meshunit')!r} mesh unit {mm.region.units[0]!r}")
    if not bad:
        got = dec["array"]
        if pm.rep == "bin8":
            ok = got.tobytes() == np.ascontiguousarray(want).tobytes()
        elif pm.rep == "bin4":
            ok = np.array_equal(got, want.astype("<f4").astype("f8"), equal_nan=True)
        else:
            ok = bool((np.abs(got - want) <= 1e-9 * np.abs(want)).all())
        if not ok:
            bad.append("x-fastest data decoded by the independent reader differs from the field")
    if bad:
        raise Violation("format.ovf2", f"{rel} [{pm.rep} {pm.opts}]: " + "; ".join(bad[:5]), preds=[pm.rep, _cls(bad[0])], kind="S")
    return "indep-ok"


# --------------------------------------------------------------------------------------
# independent views: h5py, VTK consumer
# --------------------------------------------------------------------------------------
@op("h5_view")
def op_h5_view(st, o):
    """An h5py view of the written file agrees with the field, attribute by attribute."""
    import h5py

    rel = o["path"]
    pm = st.paths.get(rel)
    if pm is None or pm.fmt != "hdf5" or pm.damage is not None or pm.foreign is not None:
        return "skipped"
    fsh = pm.fs
    mm = fsh.mesh
    bad = []
    st.stats.oracle("S")
    with h5py.File(st.fs.path(rel), "r") as f:
        try:
            g = f["field"]
            r = g["mesh/region"].attrs
            for nm, want in (("pmin", mm.region.pmin), ("pmax", mm.region.pmax)):
                got = np.asarray(r[nm], dtype=float)
                if got.shape != (mm.region.ndim,) or any(abs(Fr(float(a)) - b) > Fr(1e-12 * float(min(mm.cell))) for a, b in zip(got, want)):
                    bad.append(f"region.{nm} in file {got.tolist()} field {[float(x) for x in want]}")
            if tuple(str(x) for x in r["dims"]) != mm.region.dims:
                bad.append(f"dims in file {list(r['dims'])} field {mm.region.dims}")
            if tuple(str(x) for x in r["units"]) != mm.region.units:
                bad.append(f"units in file {list(r['units'])} field {mm.region.units}")
            if float(r["tolerance_factor"]) != mm.region.tol:
                bad.append(f"tolerance_factor in file {r['tolerance_factor']!r} field {mm.region.tol!r}")
            ma = g["mesh"].attrs
            if tuple(int(i) for i in ma["n"]) != mm.n:
                bad.append(f"n in file {list(ma['n'])} field {mm.n}")
            if str(ma["bc"]) != mm.bc:
                bad.append(f"bc in file {ma['bc']!r} field {mm.bc!r}")
            if mm.subs:
                names = [x.decode() if isinstance(x, bytes) else str(x) for x in g["mesh/subregion_names"][()]]
                if names != [k for k, _ in mm.subs]:
                    bad.append(f"subregion names in file {names} field {[k for k, _ in mm.subs]}")
                tab = np.asarray(g["mesh/subregions"][()], dtype=float)
                nd = mm.region.ndim
                for row, (k, s) in zip(tab, mm.subs):
                    want = [*s.pmin, *s.pmax]
                    if any(abs(Fr(float(a)) - b) > Fr(1e-12 * float(min(mm.cell))) for a, b in zip(row, want)):
                        bad.append(f"subregion {k!r} in file {row.tolist()} field {[float(x) for x in want]}")
            elif "subregions" in g["mesh"]:
                bad.append("file has a subregion table but the field has no subregions")
            if int(g.attrs["nvdim"]) != fsh.nvdim:
                bad.append(f"nvdim in file {g.attrs['nvdim']} field {fsh.nvdim}")
            if fsh.vdims is not None:
                fv = g.attrs["vdims"]
                if isinstance(fv, str) or [str(x) for x in fv] != list(fsh.vdims):
                    bad.append(f"vdims in file {fv!r} field {fsh.vdims}")
            if fsh.unit is not None and str(g.attrs["unit"]) != fsh.unit:
                bad.append(f"unit in file {g.attrs['unit']!r} field {fsh.unit!r}")
            arr = g["array"][()]
            if arr.shape != fsh.array.shape or (arr.dtype.kind == "c") != (fsh.array.dtype.kind == "c") or not np.array_equal(arr, fsh.array, equal_nan=arr.dtype.kind in "fc"):
                bad.append(f"array in file (dtype {arr.dtype}, shape {arr.shape}) differs from the field (dtype {fsh.array.dtype})")
            v = g["valid"][()]
            if v.shape != fsh.valid.shape or not np.array_equal(v.astype(bool), fsh.valid):
                bad.append("valid in file differs from the field")
        except KeyError as e:
            bad.append(f"missing item in file: {e}")
    if bad:
        raise Violation("format.hdf5", f"{rel}: h5py view: " + "; ".join(bad[:5]), preds=[_cls(bad[0])], kind="S")
    return "h5-ok"


def _vtk_points(mm, k):
    """Centre and one off-centre point (quarter cell from the centre) per cell."""
    pts, idxs = [], []
    cell = mm.cell
    for i in range(mm.n[0]):
        for j in range(mm.n[1]):
            for l in range(mm.n[2]):
                c = mm.centre_of((i, j, l))
                pts.append([float(x) for x in c])
                idxs.append((i, j, l))
                s = [(1 if (i + j + l + k + a) % 2 else -1) for a in range(3)]
                pts.append([float(x + sa * ca / 4) for x, sa, ca in zip(c, s, cell)])
                idxs.append((i, j, l))
    return pts, idxs


def vtk_consume(st, grid, fsh, what, txt=False):
    mm = fsh.mesh
    bad = []
    coords = peers.vtk_coords(grid)
    scale = mm.region.maxabs()
    for ax in range(3):
        want = [mm.region.pmin[ax] + i * mm.cell[ax] for i in range(mm.n[ax] + 1)]
        got = coords[ax]
        tol = Fr(1e-12 * float(mm.cell[ax])) + Fr((1e-9 if txt else 8 * EPS) * scale)
        if len(got) != len(want) or any(abs(Fr(float(a)) - b) > tol for a, b in zip(got, want)):
            bad.append(f"{what}: grid coordinates along axis {ax} {got.tolist()[:4]}.. are not the mesh vertices {[float(x) for x in want][:4]}..")
        elif not txt and (float(got[0]) != float(mm.region.pmin[ax]) or float(got[-1]) != float(mm.region.pmax[ax])):
            # the outermost vertices ARE the region corners (binary / XML / in memory: exactly)
            bad.append(f"{what}: outermost grid coordinates along axis {ax} [{float(got[0])!r}, {float(got[-1])!r}] are not the region corners [{float(mm.region.pmin[ax])!r}, {float(mm.region.pmax[ax])!r}]")
    if bad:
        return bad
    pts, idxs = _vtk_points(mm, st.nsteps)
    found = peers.vtk_lookup(grid, pts)
    rel = 1e-9 if txt else 0.0
    arr = fsh.array.astype(float)
    norm = np.sqrt((arr**2).sum(axis=-1))
    for (cid, vals), idx, p in zip(found, idxs, pts):
        if cid < 0:
            bad.append(f"{what}: VTK finds no cell at {p} (mesh cell {idx})")
            break
        want = arr[idx]
        got = np.asarray(vals["field"], dtype=float)
        if got.shape != want.shape or not (np.abs(got - want) <= rel * np.abs(want)).all():
            bad.append(f"{what}: at {p} (mesh cell {idx}) VTK cell {cid} carries field={got.tolist()} but the field value there is {want.tolist()}")
            break
        if fsh.nvdim > 1:
            for ci, cn in enumerate(fsh.vdims):
                if cn not in vals or abs(float(vals[cn][0]) - want[ci]) > rel * abs(want[ci]):
                    bad.append(f"{what}: at {p} component array {cn!r} = {vals.get(cn)} but component value is {want[ci]!r}")
                    break
        nv = float(vals["norm"][0]) if "norm" in vals else None
        if nv is None or abs(nv - norm[idx]) > (1e-9 if txt else 1e-12) * abs(norm[idx]):
            bad.append(f"{what}: at {p} norm array = {nv!r} but |value| = {norm[idx]!r}")
        if "valid" not in vals or bool(vals["valid"][0]) != bool(fsh.valid[idx]):
            bad.append(f"{what}: at {p} (mesh cell {idx}) valid flag {vals.get('valid')} but validity is {bool(fsh.valid[idx])}")
        if bad:
            break
    return bad


@op("vtk_consume")
def op_vtk_consume(st, o):
    """An independent VTK consumer locates, at the centre and at an off-centre point of
    every mesh cell, a grid cell carrying that cell's value, components, norm and
    validity - on the in-memory grid or on a written file."""
    st.stats.oracle("S")
    if "path" in o:
        rel = o["path"]
        pm = st.paths.get(rel)
        if pm is None or pm.fmt != "vtk" or pm.damage is not None or pm.foreign is not None:
            return "skipped"
        grid = peers.vtk_grid_from_file(st.fs.path(rel))
        bad = vtk_consume(st, grid, pm.fs, f"{rel} [{pm.rep}]", txt=pm.rep == "txt")
        preds = ["file", pm.rep]
    else:
        obj, fsh = st.f[o["src"]]
        if fsh.mesh.region.ndim != 3 or fsh.dtype_kind == "c":
            return "skipped"
        res = sut(obj.to_vtk)
        if res.raised:
            raise Violation("unexpected_exception", f"to_vtk raised {res.e!r}", preds=["to_vtk"], kind="S")
        bad = vtk_consume(st, res.v, fsh, "to_vtk()")
        preds = ["memory"]
    if bad:
        raise Violation("vtk.consumer", "; ".join(bad[:3]), preds=preds, kind="S")
    return "vtk-ok"


@op("sweep")
def op_sweep(st, o):
    """Fault enumeration on one small binary OVF file: every truncation offset and every
    single-bit flip of the check value (DESIGN 7/C09)."""
    obj, fsh = st.f[o["src"]]
    rep, opts = o["rep"], o.get("opts") or {}
    if not can_write(fsh, "ovf", opts) or math.prod(fsh.mesh.n) > 40:
        return "skipped"
    rel = "sweep.ovf"
    mark = len(st.fs.log)
    res = lib_write(st, obj, rel, "ovf", rep, dict(opts, save_subregions=False))
    if res.raised:
        raise Violation("unexpected_exception", f"to_file(ovf,{rep}) raised {res.e!r}", preds=["ovf", type(res.e).__name__], kind="S")
    nb = 4 if rep == "bin4" else 8
    nvals = math.prod(fsh.mesh.n) * (3 if opts.get("extend_scalar") and fsh.nvdim == 1 else fsh.nvdim)
    layout = ovf_layout(st.fs.writes_of(rel, mark), nvals, nb)
    data = st.fs.read_bytes(rel)
    pm = PathM("ovf", rep, opts, fsh, [], layout)
    step = o.get("stride", 1)
    for c in range(0, len(data), step):
        st.fs.write_bytes(rel, data[:c])
        where = classify_cut(c, layout)
        r = sut(st.df.Field.from_file, st.fs.path(rel))
        st.stats.oracle("F")
        st.stats.fault("torn_write")
        st.stats.hit("sweep/cut_" + where)
        if where == "tail":
            if not r.raised:
                bad = check_read_ovf(st, r.v, pm)
                if bad:
                    raise Violation("damaged.wrong_field", f"sweep: file cut at {c} of {len(data)} (footer) read as a different field: {bad[:3]}", preds=["cut", where, rep], kind="F")
        elif not r.raised:
            raise Violation("damaged.accepted", f"sweep: binary OVF ({rep}) cut at byte {c} of {len(data)} (inside {where}; layout {layout}) was read without error", preds=["cut", where, rep], kind="F")
    h = layout["header"]
    for b in range(nb * 8):
        d = bytearray(data)
        d[h + b // 8] ^= 1 << (b % 8)
        st.fs.write_bytes(rel, bytes(d))
        r = sut(st.df.Field.from_file, st.fs.path(rel))
        st.stats.oracle("F")
        st.stats.fault("flip_check")
        if not r.raised:
            raise Violation("damaged.accepted", f"sweep: binary OVF ({rep}) with bit {b} of the check value flipped was read without error", preds=["flip", rep], kind="F")
    d = bytearray(data)
    d[h:h + nb] = bytes(d[h:h + nb])[::-1]
    st.fs.write_bytes(rel, bytes(d))
    r = sut(st.df.Field.from_file, st.fs.path(rel))
    st.stats.oracle("F")
    st.stats.fault("flip_check")
    if not r.raised:
        raise Violation("damaged.accepted", f"sweep: binary OVF ({rep}) with the check value in the opposite byte order was read without error", preds=["flip", "swapped", rep], kind="F")
    st.fs.delete(rel)
    st.stats.probe("sweep_done")
    return "swept"
