#!/venv/bin/python
"""Fill seeded/<id>/meta.json with what was confirmed here, and write the catch matrix (markdown) to stdout.
Inputs: evidence/selftest_mutants.json (last full selftest run), the verify logs given on the command line."""
import glob, json, os, re, sys

VERIF = os.path.dirname(os.path.dirname(os.path.abspath(__file__)))
MISSED_FIRST = {"C02-1": "dict keys were always generated in mesh order", "C02-2": "no check that a field keeps its values when the caller reuses the array it passed; no faulty source field with the wrong component count",
                "C08-3": "magnitudes between 1e-10 and 1e-6 were all skipped as ambiguous for valid='norm'", "C09-3": "no rejected write over an existing path",
                "C10-2": "no stale side-car next to an HDF5 file", "C12-3": "component-to-axis mappings were always written in label order",
                "C14-3": "policy P2 never handed one subregion dictionary to two meshes", "C15-2": "no in-place writes through field.array between norm reads",
                "C16-1": "no rejected write over an existing path",
                "C03-5": "dot/cross were skipped for complex fields", "C03-6": "no in-place update of an operand (ufunc out=, write through .array) between two evaluations",
                "C08-5": "the validity profile had no in-place rotation and no refused rotation", "C08-6": "no number on the left of a binary operator (0 + f) in the validity profile",
                "C09-5": "OVF 1.0 foreign files: unit/labels were not judged; violations that depend on state the library keeps between operations were not replayable (now: complete-history fallback + minimisation in pristine forked children)",
                "C09-6": "paths never shared a stem (p0.omf / p0.ovf)", "C10-4": "no twin fields on the same geometry differing in tolerance factor / corner dtype; corner dtype not compared",
                "C10-6": "no field with more than 2**16 values in the HDF5 profile", "C12-4": "no renaming of component labels on a derived field",
                "C12-6": "no integer-typed corners in the geometric profiles", "C13-4": "no far-away reference point / translation that collapses an edge by rounding in the rejected-step catalogue",
                "C14-5": "no integer-typed corners with half-integer cells in the subregion profile", "C15-6": "no assignment of another field's array object through the array setter",
                "C16-5": "no labels ending in -component", "C16-6": "representation aliases bin8/default never used; process-global writer state (see C09-5)",
                "C18-4": "the result field of an earlier rotation was never kept and compared later; no successive rotations onto the same mesh",
                "C18-6": "align_vector always with unit-length, non-(anti)parallel vectors",
                "C15-5": "a norm given as a scalar Field on another mesh was first read as outside C15's list (constant, per-cell array, function of position); a Field IS a function of position, so the norm profile now uses scalar fields on covering meshes (same cells, or coarser with the same cell counts) as norm",
                "C03-7": "no labelled one-component fields in the algebra profile",
                "C03-9": "no two fields whose meshes share one Region object and differ only in broadcastable cell counts (what Field.resample produces) among the refused operand pairs",
                "C08-8": "resampling only to multiples/odd divisors: no new centre ever sat on an old face, where the data decides which neighbour is taken",
                "C10-7": "files were only ever replaced through to_file; now another program copies a file over an existing path between two reads",
                "C10-9": "the legacy-HDF5 peer always wrote sorted corners",
                "C12-8": "the reference point was never one of the object's own corner arrays",
                "C02-10": "no two meshes with the same cell counts and edge lengths at another origin that carry a subregion at the same absolute coordinates (now: twin meshes, and the same per-subregion dictionary on both)",
                "C03-10": "no in-place move of one of two equal meshes between two evaluations; the first report came from state leaking from an earlier run of the same worker and did not replay (now: every run executes in its own forked child)",
                "C03-11": "refused operands were always fields; no constant vector of the wrong length / operand of a wrong type on the left of a field",
                "C03-12": "exponents were never negative floats",
                "C08-10": "the harness always passed an explicit validity array, so the constructor's default (valid=True) was never exercised",
                "C10-10": "nobody changed the mesh of a field that had been read from a file before reading again",
                "C10-11": "no write that fails midway followed by an ordinary write to the same name",
                "C14-11": "no load_subregions from a side-car whose first entries fit the mesh and a later one does not",
                "C14-12": "integer-typed subregion corners together with a fractional cell were too rare (now: a dedicated integer grid with cells of 1/2 and 1/4)",
                "C15-11": "no refused norm specification followed by further use of the field",
                "C16-12": "stored fields never carried a permuted or partial component-to-axis mapping",
                "C18-11": "refused rotation requests did not include a float-typed n (refused late, by the mesh constructor)",
                "C02-14": "no in-place move / scaling of a mesh between two per-subregion assignments",
                "C02-15": "line end points kept a quarter-cell margin from every face, also from the faces of the region itself (where the containing cell is unambiguous); now lines start/end on corners and faces of the region, with several point counts",
                "C10-13": "the tolerance factor of the stored subregions was not compared",
                "C12-15": "no field above 2**16 cells in the geometric profiles (now one in 2 % of the rotation runs)",
                "C13-13": "rejected rotate90 calls always used k = 1; now also whole turns (0, 4, -4, 8)",
                "C13-14": "no field derived from a field (sharing its mesh object) in the transformation profiles",
                "C13-15": "scale factors stayed within 2**-2 .. 2**2; now also 2**-60 .. 2**60 about the origin as a one-off step",
                "C14-15": "alignment was only asked between meshes a few cells apart; now also for a copy moved by 10**4..10**6 cells and a half",
                "C15-15": "no mesh above 2**15 cells and no norm function that reduces over the coordinates of the point",
                "C16-14": "two fields on one mesh whose subregions have the same names and differ by one cell were never written to the same path",
                "C16-15": "no mesh far from the origin compared with its cell size (offset/cell of 1e6..1e8)",
                "C18-14": "rotation angles were never a fraction of a degree (caught in 2 of 4000 runs only; now small-angle runs)",
                "C18-15": "target meshes never exceeded 2**16 cells",
                "C08-17": "pad was only called with a mode, never with constant_values",
                "C09-16": "the unit pool had no unit spelled '1' (the first run reported it through a harness false alarm - two cancelling bit flips counted as damage - which was removed)",
                "C10-18": "no one-component field labelled 'None'",
                "C13-18": "reference points and k were always passed by keyword, never positionally",
                "C14-18": "plane selections never at the coordinate 0 exactly",
                "C15-18": "constructor never got a flat per-cell value (shape n) together with a norm",
                "C18-17": "rotator fields were always float",
                "C18-18": "rotator mappings were always written in label order",
                "C09-20": "check values were damaged by bit flips and by other numbers, never written in the byte order of the other OVF version (now a fault kind of its own, also in the sweep)",
                "C10-20": "the unit pool of the HDF5 profile had no empty string (explicitly dimensionless)",
                "C15-20": "a per-cell norm was always a fresh array, never a view of the field's own live array (one component, or the array of a scalar field itself)",
                "C16-9": "upper corners were always computed as pmin + k*cell, never the float nearest to the decimal value a user types; corners of binary/XML files compared with a tolerance instead of exactly"}
NOT_APPLICABLE = {}
verify = {}
for f in sys.argv[1:]:
    for line in open(f):
        m = re.match(r"(\S+): demo_clean_exit=(\d+) demo_patched_exit=(\d+) tests_exit=(\d+) missing=(\d+)", line)
        if m:
            verify[m.group(1)] = dict(demo_clean_exit=int(m.group(2)), demo_patched_exit=int(m.group(3)), baseline_tests_missing=int(m.group(5)))
rows = json.load(open(os.path.join(VERIF, "evidence", "selftest_mutants.json")))
by = {}
for r in rows:
    by.setdefault(r["mutant"], []).append(r)
import io, contextlib
buf = io.StringIO()
_stdout = sys.stdout
sys.stdout = buf
print("| change | property | needs to manifest | caught by (signature of the first violation) | violating runs of 3000-6000 | first attempt |")
print("|---|---|---|---|---|---|")
for d in sorted(glob.glob(os.path.join(VERIF, "seeded", "*-*")), key=lambda x: (os.path.basename(x).split("-")[0], int(os.path.basename(x).split("-")[1]))):
    name = os.path.basename(d)
    mp = os.path.join(d, "meta.json")
    meta = json.load(open(mp))
    res = by.get(name, [])
    caught = [r for r in res if r["caught"]]
    if name in verify:
        meta["confirmed_here"] = dict(verify[name], how="tools/verify_seeded.sh: demo.py on /repo (exit 0) and on a patched scratch copy (exit 1); tools/baseline.py on the patched copy (all 3628 baseline tests pass)")
    hits = max([r.get("violating_runs", 0) for r in caught] or [0])
    meta["detection"] = {"caught": bool(caught), "signatures": sorted({s for r in caught for s in r["signatures"]})[:4], "violating_runs": hits, "command": f"tools/mutant.sh seeded/{name}/patch.diff {meta['property']} 6000",
                         "missed_at_first": name in MISSED_FIRST, "strengthened_because": MISSED_FIRST.get(name)}
    if name in NOT_APPLICABLE:
        meta["detection"]["outside_property"] = NOT_APPLICABLE[name]
    json.dump(meta, open(mp, "w"), indent=1)
    needs = str(meta.get("needs_to_manifest", ""))[:160].replace("|", "/").replace("\n", " ")
    print(f"| seeded/{name} | {meta['property']} | {needs} | {', '.join(meta['detection']['signatures'][:2]) or ('not a violation of the property as stated' if name in NOT_APPLICABLE else 'MISSED')} | {hits}{'+' if hits and len(meta['detection']['signatures']) >= 3 else ''} | {'missed, then caught after: ' + MISSED_FIRST[name] if name in MISSED_FIRST else 'caught'} |")
print()
print("(violating runs: a lower bound - a run of the check stops early once three different signatures have been seen, marked +)")
print()
print("| own mutant | property | caught by |")
print("|---|---|---|")
for name, res in sorted(by.items()):
    if "-" in name[:6]:
        continue
    print(f"| mutants/{name}.patch | {res[0]['property']} | {', '.join(res[0]['signatures'][:2]) if res[0]['caught'] else 'MISSED'} |")

sys.stdout = _stdout
text = buf.getvalue()
print(text)
dp = os.path.join(VERIF, "DESIGN.md")
d = open(dp).read()
a, b = d.index("<!-- CATCH-MATRIX-BEGIN -->"), d.index("<!-- CATCH-MATRIX-END -->")
open(dp, "w").write(d[:a] + "<!-- CATCH-MATRIX-BEGIN -->\n" + text + d[b:])
