#!/venv/bin/python
"""Fill seeded/<id>/meta.json with what was confirmed here, and write the catch matrix (markdown) to stdout.
Inputs: evidence/selftest_mutants.json (last full selftest run), the verify logs given on the command line."""
import glob, json, os, re, sys

VERIF = os.path.dirname(os.path.dirname(os.path.abspath(__file__)))
MISSED_FIRST = {"C02-1": "dict keys were always generated in mesh order", "C02-2": "no check that a field keeps its values when the caller reuses the array it passed; no faulty source field with the wrong component count",
                "C08-3": "magnitudes between 1e-10 and 1e-6 were all skipped as ambiguous for valid='norm'", "C09-3": "no rejected write over an existing path",
                "C10-2": "no stale side-car next to an HDF5 file", "C12-3": "component-to-axis mappings were always written in label order",
                "C14-3": "policy P2 never handed one subregion dictionary to two meshes", "C15-2": "no in-place writes through field.array between norm reads",
                "C16-1": "no rejected write over an existing path"}
verify = {}
for f in sys.argv[1:]:
    for line in open(f):
        m = re.match(r"(\S+): demo_clean_exit=(\d+) demo_patched_exit=(\d+) tests_exit=(\d+) missing=(\d+)", line)
        if m:
            verify[m.group(1)] = dict(demo_clean_exit=int(m.group(2)), demo_patched_exit=int(m.group(3)), baseline_tests_missing=int(m.group(5)))
rows = json.load(open(os.path.join(VERIF, "evidence", "selftest_mutants.json")))
by = {}
for r in rows:
    by.setdefault(r["mutant"], []).append(r)
print("| change | property | needs to manifest | caught by (signature of the first violation) | first attempt |")
print("|---|---|---|---|---|")
for d in sorted(glob.glob(os.path.join(VERIF, "seeded", "*-*"))):
    name = os.path.basename(d)
    mp = os.path.join(d, "meta.json")
    meta = json.load(open(mp))
    res = by.get(name, [])
    caught = [r for r in res if r["caught"]]
    if name in verify:
        meta["confirmed_here"] = dict(verify[name], how="tools/verify_seeded.sh: demo.py on /repo (exit 0) and on a patched scratch copy (exit 1); tools/baseline.py on the patched copy (all 3628 baseline tests pass)")
    meta["detection"] = {"caught": bool(caught), "signatures": sorted({s for r in caught for s in r["signatures"]})[:4], "command": f"tools/mutant.sh seeded/{name}/patch.diff {meta['property']} 6000",
                         "missed_at_first": name in MISSED_FIRST, "strengthened_because": MISSED_FIRST.get(name)}
    json.dump(meta, open(mp, "w"), indent=1)
    needs = str(meta.get("needs_to_manifest", ""))[:160].replace("|", "/").replace("\n", " ")
    print(f"| seeded/{name} | {meta['property']} | {needs} | {', '.join(meta['detection']['signatures'][:2]) or 'MISSED'} | {'missed, then caught after: ' + MISSED_FIRST[name] if name in MISSED_FIRST else 'caught'} |")
print()
print("| own mutant | property | caught by |")
print("|---|---|---|")
for name, res in sorted(by.items()):
    if "-" in name[:6]:
        continue
    print(f"| mutants/{name}.patch | {res[0]['property']} | {', '.join(res[0]['signatures'][:2]) if res[0]['caught'] else 'MISSED'} |")
