#!/venv/bin/python
import json,sys,glob
for f in sorted(sum([glob.glob(a) for a in sys.argv[1:]],[])):
    d=json.load(open(f))
    print("=====",f, d['violation']['signature'])
    for o in d['ops']: print("  ",json.dumps(o)[:420])
    print("  ->", d['violation']['message'][:700])
