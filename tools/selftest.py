#!/venv/bin/python
"""Self-validation of the dsim machinery (DESIGN section 9).

  selftest.py determinism [N]   - N run seeds per property, executed in fresh interpreters with 1, 4 and 16
                                  workers and under PYTHONHASHSEED 0, 1 and a random one; all run digests must agree
  selftest.py mutants [pattern] - every patch under mutants/ and seeded/*/ is applied to a scratch copy of /repo and
                                  the quick check of its property must report a violation (exit 1)
"""
import glob, json, os, random, subprocess, sys, time

VERIF = os.path.dirname(os.path.dirname(os.path.abspath(__file__)))
PROPS = [c["property_id"] for c in json.load(open(os.path.join(VERIF, "MANIFEST.json")))["checks"]]


def digests(prop, n, workers, hashseed, seed=0):
    env = dict(os.environ, PYTHONHASHSEED=str(hashseed), DSIM_NO_FRESH="1")
    p = subprocess.run([os.path.join(VERIF, "check"), prop, "--digests", str(n), "--workers", str(workers), "--seed", str(seed)], capture_output=True, text=True, env=env)
    try:
        return json.loads(p.stdout.strip().splitlines()[-1])
    except Exception:
        print(p.stdout[-2000:], p.stderr[-2000:])
        raise


def determinism(n):
    bad = 0
    out = {}
    for prop in PROPS:
        t0 = time.time()
        ref = digests(prop, n, 16, 0)
        variants = [("1 worker, hashseed 0", 1, 0), ("4 workers, hashseed 1", 4, 1), ("16 workers, hashseed random", 16, random.SystemRandom().randrange(1, 2**31))]
        if n > 300:
            variants = variants[1:]
        mism = 0
        for label, w, hs in variants:
            d = digests(prop, n, w, hs)
            diff = [k for k in ref if d.get(k) != ref[k]]
            mism += len(diff)
            if diff:
                print(f"  {prop}: {len(diff)} of {n} digests differ under [{label}]: runs {diff[:8]}")
        out[prop] = {"runs": n, "variants": len(variants), "mismatches": mism}
        print(f"{prop}: {n} runs x {len(variants) + 1} executions, mismatches {mism}  ({time.time() - t0:.0f}s)")
        bad += mism
    json.dump(out, open(os.path.join(VERIF, "evidence", "selftest_determinism.json"), "w"), indent=1)
    return 1 if bad else 0


def mutants(pattern="*"):
    rows = []
    files = sorted(glob.glob(os.path.join(VERIF, "mutants", f"{pattern}.patch")) + glob.glob(os.path.join(VERIF, "seeded", f"{pattern}", "patch.diff")))
    for f in files:
        if f.endswith("patch.diff"):
            meta = json.load(open(os.path.join(os.path.dirname(f), "meta.json")))
            props = meta.get("checks") or [meta["property"]]
            name = os.path.basename(os.path.dirname(f))
        else:
            name = os.path.basename(f)[:-6]
            props = [name.split("_")[0]]
        for prop in props:
            p = subprocess.run([os.path.join(VERIF, "tools", "mutant.sh"), f, prop, os.environ.get("MUTANT_RUNS", "3000")], capture_output=True, text=True)
            rc = [l for l in p.stdout.splitlines() if l.startswith("exit=")]
            sigs = [l.split("signature:")[1].split("(runs")[0].strip() for l in p.stdout.splitlines() if "signature:" in l]
            sigs += [l.split("not replayed:")[1].split(", runs")[0].strip() for l in p.stdout.splitlines() if "further signature not replayed:" in l]
            caught = rc and rc[-1] == "exit=1"
            import re
            hits = sum(int(m) for m in re.findall(r"signature: .*?\(runs: (\d+)", p.stdout)) + sum(int(m) for m in re.findall(r"not replayed: .*?, runs: (\d+)\)", p.stdout))
            rows.append({"mutant": name, "property": prop, "caught": bool(caught), "signatures": sigs[:3], "violating_runs": hits, "runs": int(os.environ.get("MUTANT_RUNS", "3000")), "exit": rc[-1] if rc else "?"})
            print(f"{'CAUGHT' if caught else 'MISSED'}  {name:55s} {prop}  hits={hits:<5d} {sigs[:2]} {rc[-1] if rc else p.stdout[-300:]}")
    path = os.path.join(VERIF, "evidence", "selftest_mutants.json")
    if pattern != "*" and os.path.exists(path):
        # a partial run replaces the rows it has re-run and keeps the others
        done = {(r["mutant"], r["property"]) for r in rows}
        rows = [r for r in json.load(open(path)) if (r["mutant"], r["property"]) not in done] + rows
        rows.sort(key=lambda r: ("-" in r["mutant"][:6], r["mutant"]))
    json.dump(rows, open(path, "w"), indent=1)
    return 0 if all(r["caught"] for r in rows) else 1


if __name__ == "__main__":
    cmd = sys.argv[1] if len(sys.argv) > 1 else "determinism"
    if cmd == "determinism":
        sys.exit(determinism(int(sys.argv[2]) if len(sys.argv) > 2 else 200))
    sys.exit(mutants(sys.argv[2] if len(sys.argv) > 2 else "*"))
