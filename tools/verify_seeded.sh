#!/bin/sh
# usage: verify_seeded.sh <dir with patch.diff demo.py meta.json>  -> prints one line verdict
# confirms: demo passes on /repo, fails with the patch; the pinned test suite still passes with the patch
D="$(readlink -f "$1")"
SCR="$(mktemp -d /dev/shm/dsim-seedchk-XXXXXX)"
trap 'rm -rf "$SCR"' EXIT
rsync -a --exclude .git --exclude docs --exclude '*.pyc' --exclude __pycache__ /repo/ "$SCR/"
cd "$SCR" || exit 2
if ! git apply --whitespace=nowarn "$D/patch.diff"; then echo "$(basename $D): PATCH-DOES-NOT-APPLY-EXACTLY"; exit 1; fi
( cd /tmp && PYTHONPATH=/repo timeout 300 /venv/bin/python -W ignore "$D/demo.py" >/dev/null 2>&1 ); CLEAN=$?
( cd /tmp && PYTHONPATH="$SCR" timeout 300 /venv/bin/python -W ignore "$D/demo.py" >/dev/null 2>&1 ); PATCHED=$?
DSIM_BASELINE_TREE="$SCR" /venv/bin/python /verif/tools/baseline.py > "$SCR/base.log" 2>&1; TESTS=$?
MISSING=$(grep -c MISSING "$SCR/base.log")
echo "$(basename $D): demo_clean_exit=$CLEAN demo_patched_exit=$PATCHED tests_exit=$TESTS missing=$MISSING"
