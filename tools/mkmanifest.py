#!/venv/bin/python
"""Regenerate /verif/MANIFEST.json from the table below (keeps it valid at all times)."""
import json, os, subprocess, sys

VERIF = os.path.dirname(os.path.dirname(os.path.abspath(__file__)))
GUARD = "UBERMAG_DISCRETISEDFIELD_VERIF"

NA = {
    "C01": "pure function of (region, n, point): index<->coordinate maps have no schedule, fault, history or surviving state for a simulator to control (DESIGN 7/C01)",
    "C04": "derivative stencils are pure functions of one field; the 2^L validity patterns are a finite enumeration (model checking), not seeded simulation (DESIGN 7/C04)",
    "C05": "grad/div/curl/laplace are pure functions of one field; rejections are stateless (DESIGN 7/C04-C07)",
    "C06": "integrals and means are pure functions of one field (DESIGN 7/C04-C07)",
    "C07": "selection/padding/resampling are pure functions of one field plus arguments; rejections are stateless (they appear only as derive ops inside the C08/C14 histories)",
    "C11": "FFTs and k-meshes are pure functions; nothing to schedule, interleave or break (DESIGN 7/C11)",
    "C17": "xarray export/import happens in memory with no storage, history or aliasing clause; rejections are stateless (DESIGN 7/C17)",
    "C19": "topological/demagnetisation tools are pure functions with physical invariances (DESIGN 7/C19)",
    "C20": "what matplotlib is handed is a pure function of field and arguments; the only other clause is a plain frame condition (DESIGN 7/C20)",
}

CHECKS = {}


def add(pid, engine, level, text, note, technique, ref):
    CHECKS[pid] = dict(
        property_id=pid,
        quick_cmd=f"./check {pid} --tier quick",
        thorough_cmd=f"./check {pid} --tier thorough",
        evidence_file=f"/verif/evidence/{pid}.json",
        replay_cmd_template=f"./check {pid} --replay {{path}}",
        engine=engine,
        level_claimed=dict(category=level, text=text, design_ref=ref),
        level_note=note,
        technique=technique,
    )


HEAPNOTE = ("Trusted: the exact shadow model (dsim/geom.py, dsim/heap.py, fractions arithmetic), the sharing policy P1-P3, the decision "
            "margins of the generators (DESIGN S2), numpy. Sampled histories only: a clean batch is evidence, not proof.")
STORENOTE = ("Trusted: the store model and projections (dsim/store.py), the in-process peers (independent OVF parser/writers, h5py view, "
             "VTK FindCell consumer), the kernel tmpfs, numpy/h5py/VTK themselves. Sampled histories and fault points only.")
TECH_HEAP = "deterministic simulation: seeded histories over a pool of aliasing objects with rejected-step fault injection, checked step by step against an exact reference model; ddmin-minimised replay files"
TECH_STORE = "deterministic simulation: seeded store histories (writers, readers, foreign peers) over a simulated file store with torn writes, check-value corruption, stale/lost side-cars and restarts, checked against a store model; ddmin-minimised replay files"

sys.path.insert(0, VERIF)
TABLE = json.load(open(os.path.join(VERIF, "tools", "claims.json")))
for pid, c in TABLE.items():
    add(pid, c["engine"], c["level"], c["text"], STORENOTE if c["engine"] == "storesim" else HEAPNOTE, TECH_STORE if c["engine"] == "storesim" else TECH_HEAP, c["ref"])

hooks_commits = []
try:
    out = subprocess.run(["git", "-C", "/repo", "log", "--format=%h %s"], capture_output=True, text=True).stdout
    hooks_commits = [l.split()[0] for l in out.splitlines() if l.split(None, 1)[1].startswith("verif-hook:")]
except Exception:
    pass

claimed = sorted(CHECKS)
man = {
    "version": 1,
    "setup_cmd": "/venv/bin/python -c \"import hypothesis, numpy, h5py, vtk; print('deps ok')\" && chmod +x /verif/check",
    "hooks": {
        "guard": GUARD,
        "enable": f"checks set {GUARD}=1 in their own process before importing discretisedfield from /repo's working tree (editable install; nothing to build)",
        "baseline_off_cmd": "/venv/bin/python /verif/tools/baseline.py",
        "source_commits": hooks_commits,
        "add_only": True,
    },
    "engines": [
        {"name": "heapsim", "path": "/verif/dsim/heap.py", "serves_properties": [p for p in claimed if CHECKS[p]["engine"] == "heapsim"],
         "kind_free_text": "seeded scheduler over a pool of live, aliasing library objects (regions, meshes, fields, rotators): derive / mutate in place / reject / observe steps, exact shadow heap as reference model, invariants + whole-heap refinement after every step"},
        {"name": "storesim", "path": "/verif/dsim/store.py", "serves_properties": [p for p in claimed if CHECKS[p]["engine"] == "storesim"],
         "kind_free_text": "seeded scheduler over writers, readers and foreign peers around a simulated file store (tmpfs + interposed open/Path.open/clock) with torn writes, damaged check values, stale/lost side-cars, path reuse and restarts"},
    ],
    "checks": [CHECKS[p] for p in claimed],
    "not_applicable": [{"property_id": p, "reason": r} for p, r in sorted(NA.items()) if p not in CHECKS],
    "notes": "Technique family: deterministic simulation with fault injection. See DESIGN.md. KNOWN_FINDINGS.txt lists fixed defects and (if any) open findings.",
}
for p in [f"C{i:02d}" for i in range(1, 21)]:
    if p not in CHECKS and p not in NA:
        man["not_applicable"].append({"property_id": p, "reason": "check not built yet in this round (planned, see DESIGN section 2); not claimed until its check exists"})
man["not_applicable"].sort(key=lambda d: d["property_id"])
json.dump(man, open(os.path.join(VERIF, "MANIFEST.json"), "w"), indent=1)
try:
    import jsonschema
    jsonschema.validate(man, json.load(open("/root/.vp/MANIFEST.schema.json")))
    print("MANIFEST.json valid;", len(man["checks"]), "checks,", len(man["not_applicable"]), "not applicable")
except ImportError:
    print("written (jsonschema not available)")
