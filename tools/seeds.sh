#!/bin/sh
# usage: tools/seeds.sh <first seed> <last seed> [props...]  - run the quick tier of every check under other base seeds
# (VERIF_SEED); every run must exit 0 on the unchanged tree.  Evidence files are restored afterwards.
A="$1"; B="$2"; shift 2
PROPS="${*:-C02 C03 C08 C09 C10 C12 C13 C14 C15 C16 C18}"
cd "$(dirname "$0")/.." || exit 2
TMP="$(mktemp -d /dev/shm/dsim-seeds-XXXXXX)"
bad=0
for s in $(seq "$A" "$B"); do
  for p in $PROPS; do
    DSIM_NO_FRESH=1 DSIM_EVIDENCE_DIR="$TMP/ev" ./check "$p" --tier quick --seed "$s" > "$TMP/out.txt" 2>&1; rc=$?
    if [ $rc -ne 0 ]; then bad=1; echo "seed=$s $p exit=$rc"; grep -E "signature|message|VIOLATION|HARNESS" "$TMP/out.txt" | cut -c1-400; cp replays/$p-seed$s-*.json "$TMP"/ 2>/dev/null; else echo "seed=$s $p ok"; fi
  done
done
echo "kept: $TMP"
exit $bad
