#!/bin/sh
# thorough tier of every check, sequentially (run from a snapshot via vp run); optional list of properties
PROPS="${*:-C09 C03 C08 C14 C13 C12 C16 C10 C02 C15 C18}"
for p in $PROPS; do
  s=$(date +%s)
  DSIM_EVIDENCE_DIR=$PWD/thorough_evidence ./check $p --tier thorough > thorough_$p.log 2>&1
  rc=$?
  e=$(date +%s)
  echo "$p rc=$rc $((e-s))s"
  grep -E "^\[|VIOLATION|HARNESS|signature|message" thorough_$p.log | cut -c1-400
done
