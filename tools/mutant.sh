#!/bin/sh
# usage: tools/mutant.sh <patch file> <property> [runs]   - run a check against a patched scratch copy of /repo
set -e
PATCH="$(readlink -f "$1")"; PROP="$2"; RUNS="${3:-1500}"
SCR="$(mktemp -d /dev/shm/dsim-mutant-XXXXXX)"
trap 'rm -rf "$SCR"' EXIT
rsync -a --exclude .git --exclude docs --exclude '*.pyc' --exclude __pycache__ /repo/ "$SCR/"
# exact context only: a patch that needs fuzz may land in another place (it is rebased by hand instead)
( cd "$SCR" && git apply --whitespace=nowarn "$PATCH" ) || { echo "PATCH-DOES-NOT-APPLY-EXACTLY $PATCH"; echo "exit=3"; exit 0; }
cd "$(dirname "$0")/.."
set +e
DSIM_REPO="$SCR" DSIM_EVIDENCE_DIR="$SCR/evidence" DSIM_NO_FRESH=1 ./check "$PROP" --runs "$RUNS" > "$SCR/out.txt" 2>&1
RC=$?
grep -E "^\[|signature|VIOLATION|HARNESS|OK property" "$SCR/out.txt" | cut -c1-260 | head -40
echo "exit=$RC"
exit 0
