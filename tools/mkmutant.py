#!/venv/bin/python
"""mkmutant.py <name> <file relative to /repo> <<< python dict literal {old: new, ...}  -> mutants/<name>.patch"""
import ast, difflib, sys, os
name, rel = sys.argv[1], sys.argv[2]
pairs = ast.literal_eval(sys.stdin.read())
src = open(os.path.join("/repo", rel)).read()
new = src
for old, rep in pairs.items():
    assert new.count(old) == 1, f"{name}: pattern occurs {new.count(old)} times: {old[:60]!r}"
    new = new.replace(old, rep)
diff = "".join(difflib.unified_diff(src.splitlines(True), new.splitlines(True), f"a/{rel}", f"b/{rel}"))
out = os.path.join(os.path.dirname(os.path.dirname(os.path.abspath(__file__))), "mutants", name + ".patch")
mode = "a" if os.path.exists(out) and "--append" in sys.argv else "w"
open(out, mode).write(diff)
print("wrote", out, len(diff.splitlines()), "lines")
