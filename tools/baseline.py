#!/venv/bin/python
"""Run the repository's pinned test suite with the verification guard OFF and compare
with /root/.vp/BASELINE.json (every stable_pass test must still pass)."""
import json, os, subprocess, sys, tempfile
import xml.etree.ElementTree as ET

env = {k: v for k, v in os.environ.items() if k not in ("UBERMAG_DISCRETISEDFIELD_VERIF", "UBERMAG_DISCRETISEDFIELD_VERIF_OVF_CHUNK")}
TREE = os.environ.get("DSIM_BASELINE_TREE", "/repo")
if TREE != "/repo":
    env["PYTHONPATH"] = TREE
out = tempfile.mkdtemp(prefix="dsim-baseline-")
xml = os.path.join(out, "junit.xml")
extra = sys.argv[1:]
cmd = ["/venv/bin/python", "-m", "pytest", "-ra", "-q", "-p", "no:cacheprovider", "--timeout=900", "--continue-on-collection-errors", f"--junitxml={xml}", *extra]
p = subprocess.run(cmd, cwd=TREE, env=env, capture_output=True, text=True)
print(p.stdout[-1500:])
passed = set()
for tc in ET.parse(xml).getroot().iter("testcase"):
    if not any(ch.tag in ("failure", "error", "skipped") for ch in tc):
        passed.add(f"{tc.get('classname')}::{tc.get('name')}")
base = json.load(open("/root/.vp/BASELINE.json"))
want = set(base["stable_pass"])
missing = sorted(want - passed)
print(f"stable_pass: {len(want)}  passed now: {len(want & passed)}  missing: {len(missing)}")
for m in missing[:40]:
    print("  MISSING", m)
import shutil
shutil.rmtree(out, ignore_errors=True)
sys.exit(0 if not missing else 1)
